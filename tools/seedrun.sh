#!/bin/bash
# usage: tools/seedrun.sh <dir-with-patch.diff> <prop> [tier]   — applies the seeded change to /repo, runs the check, reverts.
set -u
d="$1"; p="$2"; tier="${3:-quick}"
git -C /repo diff --quiet || { echo "/repo not clean"; exit 2; }
git -C /repo apply "$d/patch.diff" || exit 2
/verif/check "$p" --tier "$tier" -no-evidence 2>&1 | grep -v "^harness" | tail -${TAILN:-6}
rc=${PIPESTATUS[0]}
git -C /repo checkout -- . ; git -C /repo status --short
echo "check-exit=$rc"
