#!/bin/bash
# usage: tools/seedverify.sh <srcdir> <name>
# Confirms a seeded change independently in a scratch worktree of /repo:
#   (1) patch applies, every module builds, the unedited suite passes with it;
#   (2) the demonstration fails with the patch and passes without it.
# On success copies {patch.diff, demo, demo_path.txt, meta.json} to /verif/seeded/<name>/ and
# appends what was run to meta.json ("verified"). The worktree is removed afterwards.
set -u
src="$1"; name="$2"
export GOFLAGS=-mod=mod GOPROXY=off GOSUMDB=off GOTOOLCHAIN=local
wt=/tmp/wtv-$(echo "$name" | tr 'A-Z' 'a-z')
git -C /repo worktree remove --force "$wt" 2>/dev/null
git -C /repo worktree add -q --detach "$wt" HEAD || exit 2
trap 'git -C /repo worktree remove --force "$wt"' EXIT
demo_rel=$(sed -n 1p "$src/demo_path.txt" | tr -d '\r' | awk '{print $1}')
demo_file=$(ls "$src"/*_test.go | head -1)
runcmd=$(grep -m1 -o 'go test.*' "$src/demo_path.txt")
[ -n "$runcmd" ] || { echo "no go test command in demo_path.txt"; exit 2; }
echo "demo: $demo_rel  cmd: $runcmd"
( cd "$wt" && git apply "$src/patch.diff" ) || { echo "RESULT patch-does-not-apply"; exit 1; }
fail=0
for m in . exp zapgrpc/internal/test; do
  ( cd "$wt/$m" && go build ./... && go test -vet=off -count=1 -timeout 25m ./... 2>&1 | grep -v "^ok\|no test files" ) && true
  ( cd "$wt/$m" && go test -vet=off -count=1 -timeout 25m ./... >/dev/null 2>&1 ) || fail=1
done
[ $fail = 0 ] || { echo "RESULT suite-fails-with-patch"; exit 1; }
echo "suite: passes with patch"
moddir="$wt"
case "$demo_rel" in exp/*) moddir="$wt/exp";; zapgrpc/internal/test/*) moddir="$wt/zapgrpc/internal/test";; esac
mkdir -p "$(dirname "$wt/$demo_rel")"; cp "$demo_file" "$wt/$demo_rel"
relcmd="$runcmd"
with=0
for i in 1 2 3; do ( cd "$moddir" && eval "$relcmd" >/tmp/seedverify.$$.log 2>&1 ) || with=$((with+1)); done
( cd "$wt" && git apply -R "$src/patch.diff" )
without=0
for i in 1 2 3; do ( cd "$moddir" && eval "$relcmd" >>/tmp/seedverify.$$.log 2>&1 ) || without=$((without+1)); done
rm -f /tmp/seedverify.$$.log
echo "demo failures with patch: $with/3, without patch: $without/3"
if [ $with -ge 2 ] && [ $without = 0 ]; then
  mkdir -p /verif/seeded/$name
  cp "$src/patch.diff" "$src/demo_path.txt" "$demo_file" /verif/seeded/$name/
  python3 - "$src/meta.json" /verif/seeded/$name/meta.json "$with" "$without" "$runcmd" <<'EOF'
import json,sys
try: m=json.load(open(sys.argv[1]))
except Exception as e: m={"note":"agent meta unreadable: %s"%e}
m["verified"]={"suite_with_patch":"go build ./... && go test -vet=off -count=1 ./... in modules ., exp, zapgrpc/internal/test: all pass",
  "demo_cmd":sys.argv[5],"demo_failures_with_patch":"%s/3"%sys.argv[3],"demo_failures_without_patch":"%s/3"%sys.argv[4],
  "where":"scratch worktree of /repo HEAD, removed afterwards"}
json.dump(m,open(sys.argv[2],"w"),indent=1)
EOF
  echo "RESULT kept /verif/seeded/$name"
else
  echo "RESULT demo-not-discriminating"; exit 1
fi
