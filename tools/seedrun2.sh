#!/bin/bash
# usage: tools/seedrun2.sh <dir-with-patch.diff> <prop> [extra check flags]
# Like seedrun.sh, but on a private scratch copy of /repo's HEAD (so /repo stays untouched and several can run at once).
set -u
d="$1"; p="$2"; shift 2
w=$(mktemp -d /tmp/rs-XXXXXX)
git -C /repo archive HEAD | tar -x -C "$w" || exit 2
( cd "$w" && git init -q . && git apply "$d/patch.diff" ) || { rm -rf "$w"; exit 2; }
/verif/check "$p" -no-evidence -repo "$w" "$@" 2>&1 | grep -v "^harness" | tail -${TAILN:-6}
rc=${PIPESTATUS[0]}
rm -rf "$w"
echo "check-exit=$rc"
