#!/usr/bin/env python3
"""Regenerates /verif/MANIFEST.json from the table below (single source of truth for claims)."""
import json, os
ROOT = os.path.dirname(os.path.dirname(os.path.abspath(__file__)))

TECH = "symbolic execution of the real go/ssa (zsym) + SMT (z3/cvc5) on every branch and assertion; native replay of counterexamples"
NOTE = ("Trusted: go/ssa construction (x/tools v0.29.0), the executor's instruction semantics (validated against the native build on sampled paths "
        "every run), z3/cvc5, the contract stubs listed in evidence.assumptions. Bounded: see level text and coverage.bounds; nothing outside the bounds is claimed.")

CLAIMS = {
}

NA = {
}

def load_claims():
    p = os.path.join(ROOT, "tools", "claims.json")
    d = json.load(open(p))
    return d["claims"], d["not_applicable"]

def main():
    claims, na = load_claims()
    props = [json.loads(l)["id"] for l in open(os.path.join(ROOT, "properties.jsonl"))]
    checks = []
    for pid in props:
        if pid in claims:
            c = claims[pid]
            checks.append({
                "property_id": pid,
                "quick_cmd": f"./check {pid} --tier quick",
                "thorough_cmd": f"./check {pid} --tier thorough",
                "evidence_file": f"/verif/evidence/{pid}.json",
                "replay_cmd_template": f"./check {pid} --replay {{path}}",
                "engine": "zsym",
                "level_claimed": {"category": "model_checking", "text": c["text"], "design_ref": c.get("design_ref", "DESIGN.md §4 " + pid)},
                "level_note": c.get("note", NOTE),
                "technique": c.get("technique", TECH),
            })
    nalist = [{"property_id": pid, "reason": na[pid]} for pid in props if pid not in claims]
    for e in nalist:
        assert e["reason"], e
    m = {
        "version": 1,
        "setup_cmd": "cd /verif/engine && GOFLAGS=-mod=mod GOPROXY=off GOSUMDB=off GOTOOLCHAIN=local go build -o /verif/bin/zsym ./cmd/zsym",
        "hooks": {
            "guard": "verif",
            "enable": "harnesses (//go:build verif) and the vrt runtime are injected with go/packages Overlay and `go test -overlay`; no file in /repo carries the tag",
            "baseline_off_cmd": "for m in . exp zapgrpc/internal/test assets; do (cd /repo/$m && GOFLAGS=-mod=mod go test -json -vet=off -count=1 -timeout 25m ./...); done",
            "source_commits": [],
            "add_only": True,
        },
        "engines": [{"name": "zsym", "path": "/verif/engine", "serves_properties": sorted(claims.keys()),
                     "kind_free_text": "dynamic symbolic executor over go/ssa (lifted x/tools ssa/interp): symbolic scalars/bytes, decision-trail forking, cooperative scheduler + happens-before monitor, contract stubs; SMT-LIB2 to z3 (fallback z3 5.1/cvc5); native replay of every counterexample"}],
        "checks": checks,
        "not_applicable": nalist,
        "notes": "Every check exits 0 = held within the stated bounds, 1 = VIOLATION (natively replayed), 3 = INCONCLUSIVE (engine error, solver unknown, unwinding failure, vacuity) - never a verdict. known_findings.json lists fixed defects (suppress nothing) and known findings.",
    }
    json.dump(m, open(os.path.join(ROOT, "MANIFEST.json"), "w"), indent=1)
    print("claims:", sorted(claims.keys()), "na:", [e["property_id"] for e in nalist])

main()
