#!/bin/bash
# usage: tools/seedsweep.sh [tier] [name...]  — runs every kept seeded change through the check of the property it breaks
# and writes /verif/seeded/RESULTS.md. Each change is applied to a private scratch copy of /repo's HEAD (removed
# afterwards), so /repo itself is never touched and several run at once (JOBS, default 3).
set -u
tier="${1:-quick}"; shift || true
cd /verif
names="$*"; [ -n "$names" ] || names=$(ls seeded | grep -v RESULTS)
out=${OUT:-seeded/RESULTS.md}
tmpd=$(mktemp -d /tmp/sweep-XXXXXX)
( cd engine && GOFLAGS=-mod=mod GOPROXY=off GOSUMDB=off GOTOOLCHAIN=local go build -o ../bin/zsym ./cmd/zsym ) || exit 3
one() {
  n="$1"; tier="$2"; tmpd="$3"
  d=/verif/seeded/$n; [ -f $d/patch.diff ] || exit 0
  prop=$(python3 -c "import json;print(json.load(open('$d/meta.json')).get('property','${n%%-*}'))" 2>/dev/null || echo ${n%%-*})
  w=$(mktemp -d /tmp/rs-XXXXXX)
  git -C /repo archive HEAD | tar -x -C "$w"
  if ! ( cd "$w" && git init -q . && git apply "$d/patch.diff" ) 2>/dev/null; then echo "| $n | $prop | patch no longer applies | | |" > $tmpd/$n.row; rm -rf "$w"; exit 0; fi
  t0=$(date +%s)
  log=$(/verif/check $prop --tier $tier -no-evidence -repo "$w" 2>&1); rc=$?
  t1=$(date +%s)
  rm -rf "$w"
  viol=$(echo "$log" | grep -c '^VIOLATION')
  harn=$(echo "$log" | grep 'counterexample:' | sed 's/.*counterexample: \([A-Za-z0-9_]*\)\/\([^ ]*\).*/\1\/\2/' | sort -u | head -3 | tr '\n' ' ')
  case $rc in 1) res="caught ($viol VIOLATION lines)";; 0) res="MISSED (exit 0)";; *) res="inconclusive (exit $rc)";; esac
  echo "| $n | $prop | $res | $harn | $((t1-t0)) s |" > $tmpd/$n.row
  echo "$n $prop rc=$rc viol=$viol"
}
export -f one
echo $names | tr ' ' '\n' | xargs -P ${JOBS:-3} -I{} bash -c "one {} $tier $tmpd"
{ echo "# Seeded changes vs. checks ($tier tier, $(date -u +%F))"; echo; echo "Each row: the change in /verif/seeded/<name>/patch.diff applied to a scratch copy of /repo's HEAD, the property's check run on it, the copy removed."; echo; echo "| seed | property | result | harness/assertion (first few) | time |"; echo "|---|---|---|---|---|"; for n in $names; do cat $tmpd/$n.row 2>/dev/null; done; } > $out
rm -rf $tmpd
