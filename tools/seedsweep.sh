#!/bin/bash
# usage: tools/seedsweep.sh [tier] [name...]  — runs every kept seeded change through the check of the property it breaks
# (apply to /repo, run, revert) and writes /verif/seeded/RESULTS.md. /repo must be clean.
set -u
tier="${1:-quick}"; shift || true
cd /verif
names="$*"; [ -n "$names" ] || names=$(ls seeded | grep -v RESULTS)
out=seeded/RESULTS.md
tmp=$(mktemp)
for n in $names; do
  d=seeded/$n; [ -f $d/patch.diff ] || continue
  prop=$(python3 -c "import json;print(json.load(open('$d/meta.json')).get('property','${n%%-*}'))" 2>/dev/null || echo ${n%%-*})
  git -C /repo diff --quiet || { echo "/repo not clean"; exit 2; }
  if ! git -C /repo apply --check /verif/$d/patch.diff 2>/dev/null; then echo "| $n | $prop | patch no longer applies | |" >> $tmp; continue; fi
  git -C /repo apply /verif/$d/patch.diff
  t0=$(date +%s)
  log=$(/verif/check $prop --tier $tier -no-evidence 2>&1); rc=$?
  t1=$(date +%s)
  git -C /repo checkout -- .
  viol=$(echo "$log" | grep -c '^VIOLATION')
  harn=$(echo "$log" | grep 'counterexample:' | sed 's/.*counterexample: \([A-Za-z0-9_]*\)\/\([^ ]*\).*/\1\/\2/' | sort -u | head -3 | tr '\n' ' ')
  case $rc in 1) res="caught ($viol VIOLATION lines)";; 0) res="MISSED (exit 0)";; *) res="inconclusive (exit $rc)";; esac
  echo "| $n | $prop | $res | $harn | $((t1-t0)) s |" >> $tmp
  echo "$n $prop rc=$rc viol=$viol"
done
{ echo "# Seeded changes vs. checks ($tier tier, $(date -u +%F))"; echo; echo "Each row: the change in /verif/seeded/<name>/patch.diff applied to /repo, the property's check run, /repo restored."; echo; echo "| seed | property | result | harness/assertion (first few) | time |"; echo "|---|---|---|---|---|"; cat $tmp; } > $out
rm -f $tmp
