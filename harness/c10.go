//go:build verif

package zap

import (
	"errors"

	"go.uber.org/zap/internal/exit"
	vrt "go.uber.org/zap/internal/vrt"
	"go.uber.org/zap/zapcore"
)

// C10 through the public constructors of package zap: a faulty field between two intact siblings.

type vNilStr struct{ s string }

func (n *vNilStr) String() string { return n.s } // panics on a nil receiver

type vPanicStr struct{}

func (vPanicStr) String() string { panic("stringer exploded") }

type vNilErr struct{ msg string }

func (e *vNilErr) Error() string { return e.msg } // panics on a nil receiver

type vPanicErr struct{}

func (vPanicErr) Error() string { panic("error exploded") }

type vFailObj struct{ n int64 }

func (o vFailObj) MarshalLogObject(enc zapcore.ObjectEncoder) error {
	enc.AddInt64("partial", o.n)
	return errors.New("object failed")
}

type vFailObjP struct{ n int64 }

func (o *vFailObjP) MarshalLogObject(enc zapcore.ObjectEncoder) error {
	enc.AddInt64("partial", o.n)
	return errors.New("object failed")
}

type vFailArr struct{}

func (vFailArr) MarshalLogArray(enc zapcore.ArrayEncoder) error {
	enc.AppendInt(1)
	return errors.New("array failed")
}

const vC10Faults = 16

// vFaultyField returns fault number sel under key "bad"; wantErrField says whether the statement's
// '<key>Error' member is due (a nil receiver rendered as "<nil>" is a value, not a failure).
func vFaultyField(sel int) (f Field, wantErrField bool) {
	switch sel {
	case 0:
		return Object("bad", vFailObj{1}), true
	case 1:
		return Array("bad", vFailArr{}), true
	case 2:
		return Inline(vFailObj{2}), false // inline members have no key of their own: the failure is reported under "Error"
	case 3:
		return Stringer("bad", (*vNilStr)(nil)), false
	case 4:
		return Stringer("bad", vPanicStr{}), true
	case 5:
		vrt.Tag("ctor=Stringers elem=nilptr")
		return Stringers("bad", []*vNilStr{{"ok"}, nil, {"tail"}}), false
	case 6:
		vrt.Tag("ctor=Stringers elem=panics")
		return Stringers("bad", []vPanicStr{{}}), true
	case 7:
		return NamedError("bad", (*vNilErr)(nil)), false
	case 8:
		return NamedError("bad", vPanicErr{}), true
	case 9:
		vrt.Tag("ctor=Errors elem=nilptr")
		return Errors("bad", []error{errors.New("fine"), (*vNilErr)(nil), errors.New("tail")}), false
	case 10:
		vrt.Tag("ctor=Errors elem=panics")
		return Errors("bad", []error{vPanicErr{}}), true
	case 11:
		return Objects("bad", []vFailObj{{1}, {2}}), true
	case 12:
		return ObjectValues("bad", []vFailObjP{{1}}), true
	case 13:
		return Reflect("bad", make(chan int)), true
	case 14:
		return Any("bad", vPanicStr{}), true
	default:
		return Dict("bad", Object("inner", vFailObj{3})), true
	}
}

//verif: prop=C10 bounds="package zap constructors: one faulty field (16 fault kinds: failing Object/Array/Inline/Objects/ObjectValues/Dict marshalers, nil-pointer and panicking Stringer/error values alone and as elements of Stringers/Errors, unencodable Reflect, Any) between two intact siblings with symbolic values, JSON ioCore, via Logger.Info and SugaredLogger.Infow: the call returns, one well-formed line, siblings intact, '<key>Error' present when marshaling failed"
func VC10ZapFields() {
	sink := &vLineSink{}
	errSink := &vLineSink{}
	core := zapcore.NewCore(zapcore.NewJSONEncoder(zapcore.EncoderConfig{MessageKey: "msg"}), sink, zapcore.DebugLevel)
	log := New(core, ErrorOutput(errSink))
	x, y := vrt.Int64("before"), vrt.Int64("after")
	sel := vrt.Choice("fault", vC10Faults)
	f, wantErr := vFaultyField(sel)
	returned := false
	func() {
		defer func() {
			if r := recover(); r != nil {
				vrt.Tag("escaped=panic")
			}
		}()
		if vrt.Choice("front", 2) == 0 {
			log.Info("m", Int64("before", x), f, Int64("after", y))
		} else {
			log.Sugar().Infow("m", "before", x, f, "after", y)
		}
		returned = true
	}()
	vrt.Assert("the-logging-call-returns-normally", returned)
	if !returned {
		return
	}
	if len(sink.lines) != 1 {
		vrt.Fail("the-entry-is-emitted-exactly-once")
		return
	}
	v, perr := vrt.ParseJSONObjectLine(sink.lines[0], "\n", false)
	if perr != "" {
		vrt.Tag("parse=" + perr)
		vrt.Fail("output-is-well-formed")
		return
	}
	var got []vPathField
	bad := false
	keys := map[string]bool{}
	for _, m := range v.Obj {
		keys[string(m.Key)] = true
	}
	vFromJSONScalars(v, &got, &bad)
	okBefore, okAfter := false, false
	for _, g := range got {
		if len(g.ns) == 0 && g.key == "before" {
			okBefore = g.val == x
		}
		if len(g.ns) == 0 && g.key == "after" {
			okAfter = g.val == y
		}
	}
	vrt.Assert("intact-siblings-keep-their-values", okBefore && okAfter)
	switch {
	case sel == 2:
		vrt.Assert("failure-described-under-keyError", keys["Error"])
	case sel == 10 || sel == 15:
		// the failing key lives inside the value (an error element's "error", the dict's "inner"): its
		// '<key>Error' member appears next to it, at that nesting level
		want := map[int]string{10: "errorError", 15: "innerError"}[sel]
		vrt.Assert("failure-described-under-keyError", vHasKeyDeep(v.Get("bad"), want))
	case wantErr:
		vrt.Assert("failure-described-under-keyError", keys["badError"])
	}
	// the intact elements around a faulty element of an array are siblings too
	if sel == 5 || sel == 9 {
		arr := v.Get("bad")
		want := []string{"ok", "<nil>", "tail"}
		if sel == 9 {
			want[0] = "fine"
		}
		ok := arr != nil && arr.Kind == vrt.JArr && len(arr.Arr) == len(want)
		for i := 0; ok && i < len(want); i++ {
			e := arr.Arr[i]
			if sel == 9 {
				e = e.Get("error")
			}
			ok = e != nil && e.Kind == vrt.JStr && string(e.Str) == want[i]
		}
		vrt.Assert("intact-elements-around-a-faulty-element-survive", ok)
	}
	vrt.Observe("keys", len(v.Obj))
	vrt.Cover("done")
}

// vFromJSONScalars collects top-level integer members (token-aware) of an object.
func vFromJSONScalars(v *vrt.JVal, out *[]vPathField, bad *bool) {
	for _, m := range v.Obj {
		if m.Val.Kind != vrt.JNum {
			continue
		}
		var val int64
		found := false
		for _, c := range m.Val.Num {
			if tv, ok := vrt.TokInt(c); ok {
				val, found = tv, true
				break
			}
		}
		if !found {
			neg := false
			for _, c := range m.Val.Num {
				if c == '-' {
					neg = true
				} else if c >= '0' && c <= '9' {
					val = val*10 + int64(c-'0')
				}
			}
			if neg {
				val = -val
			}
		}
		*out = append(*out, vPathField{key: string(m.Key), val: val})
	}
}

func vHasKeyDeep(v *vrt.JVal, key string) bool {
	if v == nil {
		return false
	}
	for _, m := range v.Obj {
		if string(m.Key) == key || vHasKeyDeep(m.Val, key) {
			return true
		}
	}
	for _, e := range v.Arr {
		if vHasKeyDeep(e, key) {
			return true
		}
	}
	return false
}

// ---- a failing core next to a healthy one, at the levels after which control may be lost

type vSnapHook struct {
	errOut *vLineSink
	seen   *int
}

// OnWrite runs where the process would end: what is on the error output now is all that will ever be there.
func (h vSnapHook) OnWrite(*zapcore.CheckedEntry, []zapcore.Field) { *h.seen = len(h.errOut.lines) }

//verif: prop=C10 bounds="logger over a tee of a failing core and a recording core (either order), with an error output; one entry at Error, DPanic (development on/off), Panic or Fatal through Logger or SugaredLogger, terminal hooks {default (panic recovered / exit stubbed), custom hook that looks at the error output at the moment the process would end, Goexit}: the healthy core has the entry, and the failure is on the error output by the time the terminal action runs"
func VC10TerminalFailure() {
	stub := exit.Stub()
	defer stub.Unstub()
	rec := vNewCore("rec", zapcore.DebugLevel)
	bad := vNewCore("bad", zapcore.DebugLevel)
	bad.werr = errors.New("core failed")
	var core zapcore.Core
	if vrt.Choice("order", 2) == 0 {
		core = zapcore.NewTee(bad, rec)
	} else {
		core = zapcore.NewTee(rec, bad)
	}
	errOut := &vLineSink{}
	seen := -1
	opts := []Option{ErrorOutput(errOut)}
	dev := vrt.Choice("development", 2) == 1
	if dev {
		opts = append(opts, Development())
	}
	hookKind := vrt.Choice("hook", 3)
	switch hookKind {
	case 1:
		opts = append(opts, WithPanicHook(vSnapHook{errOut, &seen}), WithFatalHook(vSnapHook{errOut, &seen}))
	case 2:
		opts = append(opts, WithPanicHook(zapcore.WriteThenGoexit), WithFatalHook(zapcore.WriteThenGoexit))
	}
	log := New(core, opts...)
	lvl := []zapcore.Level{ErrorLevel, DPanicLevel, PanicLevel, FatalLevel}[vrt.Choice("level", 4)]
	sugared := vrt.Choice("front", 2) == 1
	vRunMaybeGoexit(func() {
		defer func() { _ = recover() }()
		if sugared {
			log.Sugar().Logw(lvl, "m", "k", 1)
		} else {
			log.Log(lvl, "m", Int("k", 1))
		}
	})
	terminal := lvl == PanicLevel || lvl == FatalLevel || (lvl == DPanicLevel && dev)
	vrt.Observe("reports", len(errOut.lines))
	vrt.Assert("remaining-cores-of-a-tee-still-receive-the-entry", len(rec.st.writes) == 1)
	vrt.Assert("failure-reported-on-the-error-output", len(errOut.lines) == 1)
	if terminal && hookKind == 1 {
		vrt.Assert("failure-reported-before-control-is-lost", seen == 1)
	}
	vrt.Cover("done")
}
