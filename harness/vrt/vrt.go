// Package vrt is the tiny runtime API shared by all verification harnesses.
//
// It is injected into the build as go.uber.org/zap/internal/vrt through an
// overlay (nothing is written into /repo). Under the symbolic executor (zsym)
// every function here is intercepted by name and its body is never run; when a
// harness is compiled natively (replay, translator validation) the bodies
// below read the inputs recorded in the file named by VERIF_REPLAY.
package vrt

import (
	"encoding/json"
	"fmt"
	"math"
	"os"
	"sort"
	"strings"
)

type replayFile struct {
	Harness string            `json:"harness"`
	Inputs  map[string]uint64 `json:"inputs"`
	Tier    int               `json:"tier"`
}

var (
	cur      replayFile
	failures []string
	observed []string
	tags     []string
)

// Load reads a replay file (native mode only).
func Load(path string) error {
	cur = replayFile{}
	failures, observed, tags, events = nil, nil, nil, nil
	b, err := os.ReadFile(path)
	if err != nil {
		return err
	}
	return json.Unmarshal(b, &cur)
}

func init() {
	if p := os.Getenv("VERIF_REPLAY"); p != "" {
		_ = Load(p)
	}
}

// Failures returns the labels of failed assertions since Load.
func Failures() []string { return failures }

// Observed returns the rendered observations since Load.
func Observed() []string { return observed }

func in(name string) uint64 { return cur.Inputs[name] }

// Symbolic reports whether the harness runs under the symbolic executor.
func Symbolic() bool { return false }

// Tier is 0 for the quick tier and 1 for the thorough tier.
func Tier() int { return cur.Tier }

// Pick returns q in the quick tier and t in the thorough tier.
func Pick(q, t int) int {
	if Tier() > 0 {
		return t
	}
	return q
}

func Int64(name string) int64     { return int64(in(name)) }
func Int32(name string) int32     { return int32(in(name)) }
func Int16(name string) int16     { return int16(in(name)) }
func Int8(name string) int8       { return int8(in(name)) }
func Int(name string) int         { return int(in(name)) }
func Uint64(name string) uint64   { return in(name) }
func Uint32(name string) uint32   { return uint32(in(name)) }
func Uint16(name string) uint16   { return uint16(in(name)) }
func Uint8(name string) uint8     { return uint8(in(name)) }
func Byte(name string) byte       { return uint8(in(name)) }
func Uint(name string) uint       { return uint(in(name)) }
func Uintptr(name string) uintptr { return uintptr(in(name)) }
func Bool(name string) bool       { return in(name) != 0 }

// Float64 is an arbitrary IEEE-754 bit pattern (NaN payloads, -0, subnormals included).
func Float64(name string) float64 { return math.Float64frombits(in(name)) }
func Float32(name string) float32 { return math.Float32frombits(uint32(in(name))) }

// Bytes returns n arbitrary bytes named name[0..n-1].
func Bytes(name string, n int) []byte {
	b := make([]byte, n)
	for i := range b {
		b[i] = byte(in(fmt.Sprintf("%s[%d]", name, i)))
	}
	return b
}

// String returns a string of n arbitrary bytes.
func String(name string, n int) string { return string(Bytes(name, n)) }

// Choice returns an arbitrary value in [0,n); every value is explored as its own path family.
func Choice(name string, n int) int {
	v := int(in(name))
	if v < 0 || v >= n {
		return 0
	}
	return v
}

// IntRange returns an arbitrary concrete int in [lo,hi], forked.
func IntRange(name string, lo, hi int) int { return lo + Choice(name, hi-lo+1) }

// Assume restricts the inputs considered.
func Assume(c bool) {
	if !c {
		panic(assumeFailed{})
	}
}

type assumeFailed struct{}

// AssumeFailed reports whether a recovered panic value is a failed assumption.
func AssumeFailed(r interface{}) bool { _, ok := r.(assumeFailed); return ok }

// Assert states the property.
func Assert(label string, c bool) {
	if !c {
		failures = append(failures, label)
	}
}

// Fail reports an unconditional violation on the current path.
func Fail(label string) { failures = append(failures, label) }

// Cover marks a point that some feasible path must reach (vacuity guard).
func Cover(label string) {}

// Tag attaches a classification to the current path; tags identify known findings.
func Tag(kv string) { tags = append(tags, kv) }

// Bound records a bound of the harness in the evidence.
func Bound(text string) {}

// Observe records a value for translator validation (engine vs native digest).
func Observe(label string, v interface{}) {
	observed = append(observed, label+"="+render(v))
}

func render(v interface{}) string {
	switch x := v.(type) {
	case []byte:
		return fmt.Sprintf("%q", string(x))
	case string:
		return fmt.Sprintf("%q", x)
	case float64:
		return fmt.Sprintf("f64:%016x", math.Float64bits(x))
	case float32:
		return fmt.Sprintf("f32:%08x", math.Float32bits(x))
	case error:
		if x == nil {
			return "<nil>"
		}
		return "err:" + x.Error()
	case nil:
		return "<nil>"
	case []string:
		return fmt.Sprintf("%q", x)
	}
	return fmt.Sprint(v)
}

// Join waits for every goroutine started by the harness (engine only; natively use a WaitGroup as well).
func Join() {}

// LiveGoroutines is the number of harness-started goroutines that have not finished (engine only).
func LiveGoroutines() int { return 0 }

// Yield is an explicit scheduling point (engine only).
func Yield() {}

// PoolNondet makes sync.Pool.Get return any pooled object or a new one (engine only).
func PoolNondet(on bool) {}

// PoolNondetFirst makes the next k sync.Pool.Get calls nondeterministic; later ones reuse last-in-first-out (engine only).
// width > 0 bounds the alternatives of each such Get to that many: the newest pooled objects, the oldest one, a new one.
func PoolNondetFirst(k, width int) {}

// PoolInterfere makes f run right after the k-th sync.Pool.Put from now on (engine only): a whole operation
// of another goroutine scheduled at the point where a pooled object has just been handed back.
func PoolInterfere(k int, f func()) {}

// PoolPuts is the number of sync.Pool.Put calls seen since PoolInterfere was armed (engine only).
func PoolPuts() int { return 0 }

// SolverHint selects the solver route for the queries of this path: "int" sends the (unchanged) bit-vector
// text to cvc5 --solve-bv-as-int=sum first, which decides multiply/divide-by-constant kernels that
// bit-blasting does not (engine only).
func SolverHint(route string) {}

// Budget raises the per-path step budget (engine only).
func Budget(steps int) {}

// Event appends to the path's event trace; Events returns it.
var events []string

func Event(e string)       { events = append(events, e) }
func Events() []string     { return events }
func ResetEvents()         { events = nil }
func EventsString() string { return strings.Join(events, ";") }

// TokInt reports whether b is a digit byte of a symbolic integer token produced by the
// strconv stub and, if so, which value the token stands for. Natively always false.
func TokInt(b byte) (v int64, ok bool)               { return 0, false }
func TokUint(b byte) (v uint64, ok bool)             { return 0, false }
func TokFloat(b byte) (v float64, bits int, ok bool) { return 0, 0, false }

// TokID identifies the stub token a byte belongs to (0 = not a token byte).
func TokID(b byte) int { return 0 }

// ---- model of *os.File handles (zap obtains files only through its sink registry's openFile seam)

var nativeFiles = map[*os.File]string{}

// NewFile returns a fresh file handle. Under the engine it is an opaque handle whose Write/Sync/Close
// calls are recorded; natively it is a real temporary file (opened read-only when failWrite is set, so
// that writes fail).
func NewFile(name string, failWrite bool) *os.File {
	f, err := os.CreateTemp("", "vrt-file-*")
	if err != nil {
		panic(err)
	}
	if failWrite {
		path := f.Name()
		f.Close()
		f, err = os.Open(path)
		if err != nil {
			panic(err)
		}
	}
	nativeFiles[f] = f.Name()
	return f
}

// FileCloses is the number of Close calls the handle has seen (natively: 1 if closed, else 0).
func FileCloses(f *os.File) int {
	if f.Fd() == ^uintptr(0) {
		return 1
	}
	return 0
}

// FileSyncs is the number of successful Sync calls (engine only; natively -1 = unknown).
func FileSyncs(f *os.File) int { return -1 }

// FileData is everything written to the handle so far.
func FileData(f *os.File) string {
	b, _ := os.ReadFile(nativeFiles[f])
	return string(b)
}

// RemoveFiles deletes the temporary files behind native handles.
func RemoveFiles() {
	for f, p := range nativeFiles {
		f.Close()
		os.Remove(p)
		delete(nativeFiles, f)
	}
}

// SortedTags returns the tags of the current path.
func SortedTags() []string { s := append([]string{}, tags...); sort.Strings(s); return s }
