package vrt

// A strict JSON (RFC 8259) recogniser and decoder used as the oracle for
// encoder output. It is ordinary Go over bytes: under the symbolic executor it
// runs on symbolic bytes (each comparison is decided by the solver), natively it
// runs on the replayed bytes.

import "unicode/utf8"

const (
	JNull = iota
	JBool
	JNum
	JStr
	JObj
	JArr
)

type JVal struct {
	Kind int
	Bool bool
	Num  []byte // raw number text
	Str  []byte // unescaped string contents
	Obj  []JMember
	Arr  []*JVal
}

type JMember struct {
	Key []byte
	Val *JVal
}

type jparser struct {
	b      []byte
	i      int
	spaced bool // allow a single space after ':' and ',' (zap's console/spaced mode)
	err    string
	depth  int
}

func (p *jparser) fail(msg string) bool {
	if p.err == "" {
		p.err = msg
	}
	return false
}

func (p *jparser) peek() (byte, bool) {
	if p.i < len(p.b) {
		return p.b[p.i], true
	}
	return 0, false
}

func (p *jparser) ws() {
	if p.spaced && p.i < len(p.b) && p.b[p.i] == ' ' {
		p.i++
	}
}

// ParseJSONObjectLine parses exactly one JSON object followed by lineEnding and nothing else.
// No whitespace is accepted inside the object (spaced: one space after ':' and ',').
func ParseJSONObjectLine(b []byte, lineEnding string, spaced bool) (*JVal, string) {
	p := &jparser{b: b, spaced: spaced}
	c, ok := p.peek()
	if !ok || c != '{' {
		return nil, "does not start with an object"
	}
	v := p.value()
	if p.err != "" {
		return nil, p.err
	}
	rest := p.b[p.i:]
	if string(rest) != lineEnding {
		return nil, "object not followed by exactly the line ending"
	}
	return v, ""
}

// ParseJSONValue parses one JSON value from the start of b and returns the rest.
func ParseJSONValue(b []byte, spaced bool) (*JVal, []byte, string) {
	p := &jparser{b: b, spaced: spaced}
	v := p.value()
	if p.err != "" {
		return nil, nil, p.err
	}
	return v, p.b[p.i:], ""
}

func (p *jparser) value() *JVal {
	p.depth++
	defer func() { p.depth-- }()
	if p.depth > 40 {
		p.fail("too deep")
		return nil
	}
	c, ok := p.peek()
	if !ok {
		p.fail("unexpected end")
		return nil
	}
	switch {
	case c == '{':
		return p.object()
	case c == '[':
		return p.array()
	case c == '"':
		s, ok := p.str()
		if !ok {
			return nil
		}
		return &JVal{Kind: JStr, Str: s}
	case c == 't':
		if p.lit("true") {
			return &JVal{Kind: JBool, Bool: true}
		}
		return nil
	case c == 'f':
		if p.lit("false") {
			return &JVal{Kind: JBool, Bool: false}
		}
		return nil
	case c == 'n':
		if p.lit("null") {
			return &JVal{Kind: JNull}
		}
		return nil
	case c == '-' || (c >= '0' && c <= '9'):
		return p.number()
	}
	p.fail("unexpected byte at value start")
	return nil
}

func (p *jparser) lit(s string) bool {
	if p.i+len(s) > len(p.b) || string(p.b[p.i:p.i+len(s)]) != s {
		return p.fail("bad literal")
	}
	p.i += len(s)
	return true
}

func isDigit(c byte) bool { return c >= '0' && c <= '9' }

func (p *jparser) digits() int {
	n := 0
	for p.i < len(p.b) && isDigit(p.b[p.i]) {
		p.i++
		n++
	}
	return n
}

func (p *jparser) number() *JVal {
	start := p.i
	if p.b[p.i] == '-' {
		p.i++
	}
	c, ok := p.peek()
	if !ok || !isDigit(c) {
		p.fail("number: digit expected")
		return nil
	}
	if c == '0' {
		p.i++
		if d, ok := p.peek(); ok && isDigit(d) {
			p.fail("number: leading zero")
			return nil
		}
	} else {
		p.digits()
	}
	if c, ok := p.peek(); ok && c == '.' {
		p.i++
		if p.digits() == 0 {
			p.fail("number: digits expected after '.'")
			return nil
		}
	}
	if c, ok := p.peek(); ok && (c == 'e' || c == 'E') {
		p.i++
		if s, ok := p.peek(); ok && (s == '+' || s == '-') {
			p.i++
		}
		if p.digits() == 0 {
			p.fail("number: digits expected in exponent")
			return nil
		}
	}
	return &JVal{Kind: JNum, Num: p.b[start:p.i]}
}

func hexVal(c byte) (int, bool) {
	switch {
	case c >= '0' && c <= '9':
		return int(c - '0'), true
	case c >= 'a' && c <= 'f':
		return int(c-'a') + 10, true
	case c >= 'A' && c <= 'F':
		return int(c-'A') + 10, true
	}
	return 0, false
}

// str parses a JSON string at p.i and returns its unescaped contents.
func (p *jparser) str() ([]byte, bool) {
	p.i++ // opening quote
	start := p.i
	var out []byte
	for {
		if p.i >= len(p.b) {
			return nil, p.fail("unterminated string")
		}
		c := p.b[p.i]
		switch {
		case c == '"':
			if !utf8.Valid(p.b[start:p.i]) {
				return nil, p.fail("string is not valid UTF-8")
			}
			p.i++
			return out, true
		case c < 0x20:
			return nil, p.fail("raw control character in string")
		case c == '\\':
			if p.i+1 >= len(p.b) {
				return nil, p.fail("dangling escape")
			}
			e := p.b[p.i+1]
			switch e {
			case '"', '\\', '/':
				out = append(out, e)
				p.i += 2
			case 'b':
				out = append(out, '\b')
				p.i += 2
			case 'f':
				out = append(out, '\f')
				p.i += 2
			case 'n':
				out = append(out, '\n')
				p.i += 2
			case 'r':
				out = append(out, '\r')
				p.i += 2
			case 't':
				out = append(out, '\t')
				p.i += 2
			case 'u':
				if p.i+6 > len(p.b) {
					return nil, p.fail("short \\u escape")
				}
				r := 0
				for k := 2; k < 6; k++ {
					h, ok := hexVal(p.b[p.i+k])
					if !ok {
						return nil, p.fail("bad hex digit in \\u escape")
					}
					r = r<<4 | h
				}
				out = utf8.AppendRune(out, rune(r))
				p.i += 6
			default:
				return nil, p.fail("illegal escape")
			}
		default:
			out = append(out, c)
			p.i++
		}
	}
}

func (p *jparser) object() *JVal {
	v := &JVal{Kind: JObj}
	p.i++ // {
	if c, ok := p.peek(); ok && c == '}' {
		p.i++
		return v
	}
	for {
		c, ok := p.peek()
		if !ok || c != '"' {
			p.fail("object: key expected")
			return nil
		}
		k, ok := p.str()
		if !ok {
			return nil
		}
		if c, ok := p.peek(); !ok || c != ':' {
			p.fail("object: ':' expected")
			return nil
		}
		p.i++
		p.ws()
		val := p.value()
		if val == nil {
			p.fail("object: value expected")
			return nil
		}
		v.Obj = append(v.Obj, JMember{Key: k, Val: val})
		c, ok = p.peek()
		if !ok {
			p.fail("object: unterminated")
			return nil
		}
		if c == '}' {
			p.i++
			return v
		}
		if c != ',' {
			p.fail("object: ',' or '}' expected")
			return nil
		}
		p.i++
		p.ws()
	}
}

func (p *jparser) array() *JVal {
	v := &JVal{Kind: JArr}
	p.i++ // [
	if c, ok := p.peek(); ok && c == ']' {
		p.i++
		return v
	}
	for {
		val := p.value()
		if val == nil {
			p.fail("array: value expected")
			return nil
		}
		v.Arr = append(v.Arr, val)
		c, ok := p.peek()
		if !ok {
			p.fail("array: unterminated")
			return nil
		}
		if c == ']' {
			p.i++
			return v
		}
		if c != ',' {
			p.fail("array: ',' or ']' expected")
			return nil
		}
		p.i++
		p.ws()
	}
}

// Get returns the first member with the given key.
func (v *JVal) Get(key string) *JVal {
	if v == nil {
		return nil
	}
	for _, m := range v.Obj {
		if string(m.Key) == key {
			return m.Val
		}
	}
	return nil
}

// Render prints a decoded tree in a canonical form (for observations).
func (v *JVal) Render() string {
	if v == nil {
		return "<nil>"
	}
	switch v.Kind {
	case JNull:
		return "null"
	case JBool:
		if v.Bool {
			return "true"
		}
		return "false"
	case JNum:
		return "#" + string(v.Num)
	case JStr:
		return "\"" + string(v.Str) + "\""
	case JObj:
		s := "{"
		for i, m := range v.Obj {
			if i > 0 {
				s += ","
			}
			s += string(m.Key) + ":" + m.Val.Render()
		}
		return s + "}"
	case JArr:
		s := "["
		for i, e := range v.Arr {
			if i > 0 {
				s += ","
			}
			s += e.Render()
		}
		return s + "]"
	}
	return "?"
}

// ReplaceInvalidUTF8 returns s with every invalid byte replaced by U+FFFD (the documented encoder rule).
func ReplaceInvalidUTF8(s []byte) []byte {
	var out []byte
	for i := 0; i < len(s); {
		if s[i] < utf8.RuneSelf {
			out = append(out, s[i])
			i++
			continue
		}
		r, size := utf8.DecodeRune(s[i:])
		if r == utf8.RuneError && size == 1 {
			out = append(out, 0xEF, 0xBF, 0xBD)
			i++
			continue
		}
		out = append(out, s[i:i+size]...)
		i += size
	}
	return out
}
