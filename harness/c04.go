//go:build verif

package zap

import (
	"sync"
	"time"

	vrt "go.uber.org/zap/internal/vrt"
	"go.uber.org/zap/zapcore"
)

// C04: goroutines log through loggers sharing one core. The underlying sink is NOT thread-safe: it notices
// two goroutines inside it at once, and it records the byte stream. Every sink write must consist of whole
// lines; at the end the stream must be exactly one intact line per entry, in each goroutine's own order.

type vRawSink struct {
	name   string
	inside int
	stream []byte
	writes int
	syncs  int
}

func (s *vRawSink) Write(p []byte) (int, error) {
	s.inside++
	vrt.Assert("sink-never-entered-by-two-goroutines-at-once", s.inside == 1)
	vrt.Assert("every-sink-write-is-made-of-whole-lines", len(p) > 0 && p[len(p)-1] == '\n')
	half := len(p) / 2
	s.stream = append(s.stream, p[:half]...)
	vrt.Yield() // a slow sink: another goroutine may run in the middle of the write
	s.stream = append(s.stream, p[half:]...)
	s.writes++
	s.inside--
	return len(p), nil
}

func (s *vRawSink) Sync() error {
	s.inside++
	vrt.Assert("sink-never-entered-by-two-goroutines-at-once", s.inside == 1)
	vrt.Yield()
	s.syncs++
	s.inside--
	return nil
}

// vLinesOf splits a stream into lines (without the newline); ok is false when the stream does not end at a line boundary.
func vLinesOf(stream []byte) (lines []string, ok bool) {
	start := 0
	for i, c := range stream {
		if c == '\n' {
			lines = append(lines, string(stream[start:i]))
			start = i + 1
		}
	}
	return lines, start == len(stream)
}

// vCheckStream: the stream holds exactly the expected lines, each goroutine's lines in its own order.
func vCheckStream(label string, s *vRawSink, perG [][]string) {
	lines, whole := vLinesOf(s.stream)
	vrt.Assert(label+":stream-ends-at-a-line-boundary", whole)
	total := 0
	for _, g := range perG {
		total += len(g)
	}
	vrt.Assert(label+":one-line-per-entry", len(lines) == total)
	if len(lines) != total {
		return
	}
	// every line is one of the expected lines, consumed in per-goroutine order
	next := make([]int, len(perG))
	for _, ln := range lines {
		matched := false
		for g := range perG {
			if next[g] < len(perG[g]) && ln == perG[g][next[g]] {
				next[g]++
				matched = true
				break
			}
		}
		if !matched {
			vrt.Fail(label + ":line-is-intact-and-in-its-goroutines-order")
			return
		}
	}
}

type vPayload4 struct{ N int }

// zap4Below enables the levels below l.
type zap4Below zapcore.Level

func (b zap4Below) Enabled(l zapcore.Level) bool { return l < zapcore.Level(b) }

func vC04Case(entriesPerG int, kinds []int, withReflected bool) {
	cfg := zapcore.EncoderConfig{MessageKey: "m"}
	enc := zapcore.NewJSONEncoder(cfg)
	a, b := &vRawSink{name: "a"}, &vRawSink{name: "b"}
	var core zapcore.Core
	var buffered *zapcore.BufferedWriteSyncer
	sinks := []*vRawSink{a}
	kind := kinds[vrt.Choice("core", len(kinds))]
	lvl1 := zapcore.InfoLevel // the level the second goroutine logs at
	switch kind {
	case 0: // Lock(sink)
		core = zapcore.NewCore(enc, zapcore.Lock(a), zapcore.DebugLevel)
	case 1: // buffered syncer straight over the raw sink; some lines are larger than the buffer
		buffered = &zapcore.BufferedWriteSyncer{WS: a, Size: 16, FlushInterval: time.Hour, Clock: vNoTickClock{}}
		core = zapcore.NewCore(enc, buffered, zapcore.DebugLevel)
	case 2: // tee of two locked cores: both branches get everything
		core = zapcore.NewTee(zapcore.NewCore(enc, zapcore.Lock(a), zapcore.DebugLevel), zapcore.NewCore(enc.Clone(), zapcore.Lock(b), zapcore.DebugLevel))
		sinks = append(sinks, b)
	case 3: // CombineWriteSyncers (what zap.Open builds): one lock over a multi-writer
		core = zapcore.NewCore(enc, CombineWriteSyncers(a, b), zapcore.DebugLevel)
		sinks = append(sinks, b)
	case 4: // one locked sink shared by a buffered low-level branch and a direct high-level branch of a tee
		locked := zapcore.Lock(a)
		buffered = &zapcore.BufferedWriteSyncer{WS: locked, Size: 16, FlushInterval: time.Hour, Clock: vNoTickClock{}}
		below := zap4Below(zapcore.ErrorLevel)
		core = zapcore.NewTee(zapcore.NewCore(enc, buffered, below), zapcore.NewCore(enc.Clone(), locked, zapcore.ErrorLevel))
		lvl1 = zapcore.ErrorLevel
	}
	root := New(core)
	child := root.With(Int("c", 1))
	// reflected values go through a per-encoder reflection buffer: context and call-site fields of that kind
	reflected := withReflected && vrt.Choice("reflected", 2) == 1
	if reflected {
		root = root.With(Reflect("r", vPayload4{1}))
		child = root.Named("n") // same core, hence the same long-lived encoder, as the root
	}
	// messages: a symbolic lower-case letter each, so that a corrupted byte cannot hide
	msg := func(g, e int) string {
		c := vrt.Byte(vName("m", g*10+e))
		vrt.Assume(c >= 'a' && c <= 'z')
		return string([]byte{'g', byte('0' + g), 'e', byte('0' + e), c})
	}
	perG := make([][]string, 2)
	msgs := make([][]string, 2)
	for g := 0; g < 2; g++ {
		for e := 0; e < entriesPerG; e++ {
			m := msg(g, e)
			msgs[g] = append(msgs[g], m)
			switch {
			case reflected && g == 0:
				perG[g] = append(perG[g], `{"m":"`+m+`","r":{"N":1},"v":{"N":10}}`)
			case reflected:
				perG[g] = append(perG[g], `{"m":"`+m+`","r":{"N":1},"v":{"N":11}}`)
			case g == 0:
				perG[g] = append(perG[g], `{"m":"`+m+`"}`)
			default:
				perG[g] = append(perG[g], `{"m":"`+m+`","c":1}`)
			}
		}
	}
	syncBy := vrt.Choice("sync", 3) - 1 // -1: nobody, else the goroutine that also calls Sync after its first entry
	var wg sync.WaitGroup
	wg.Add(2)
	go func() {
		defer wg.Done()
		for i, m := range msgs[0] {
			if reflected {
				root.Info(m, Reflect("v", vPayload4{10}))
			} else {
				root.Info(m)
			}
			if syncBy == 0 && i == 0 {
				_ = root.Sync()
			}
		}
	}()
	go func() {
		defer wg.Done()
		for i, m := range msgs[1] {
			if reflected {
				child.Log(lvl1, m, Reflect("v", vPayload4{11}))
			} else {
				child.Log(lvl1, m)
			}
			if syncBy == 1 && i == 0 {
				_ = child.Sync()
			}
		}
	}()
	wg.Wait()
	if buffered != nil {
		vrt.Assert("stop-nil", buffered.Stop() == nil)
	}
	for _, s := range sinks {
		vCheckStream(s.name, s, perG)
	}
	vrt.Cover("done")
}

//verif: prop=C04 bounds="2 goroutines, 1 entry each (root logger and a With-child, optionally with a reflected context value and reflected call-site fields; messages carry a symbolic letter), optionally one of them also calling Sync, over {Lock(sink), BufferedWriteSyncer(Size 16: the child's line exceeds the buffer) straight over the sink, tee of two locked cores, CombineWriteSyncers of two sinks, one Lock(sink) shared by a buffered below-Error branch and a direct Error branch of a tee (the second goroutine logs at Error)}; the raw sink yields in the middle of every write; every interleaving of synchronisation operations with at most 2 preemptions; race monitor on"
func VC04Two() { vC04Case(1, []int{0, 1, 2, 3, 4}, true) }

//verif: prop=C04 tier=thorough bounds="2 goroutines, 2 entries each over {Lock(sink), BufferedWriteSyncer straight over the sink, one Lock(sink) shared by a buffered and a direct tee branch}, plain fields, optionally one goroutine also calling Sync; at most 3 preemptions"
func VC04TwoByTwo() { vC04Case(2, []int{0, 1, 4}, false) }
