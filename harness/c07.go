//go:build verif

package zap

import (
	"time"

	vrt "go.uber.org/zap/internal/vrt"
	"go.uber.org/zap/zapcore"
	"go.uber.org/zap/zaptest/observer"
)

// vPathField is one expected context field: nesting path (namespaces) + key + value.
type vPathField struct {
	ns  []string
	key string
	val int64
}

type vDerived struct {
	log   *Logger
	names []string
	ctx   []vPathField
	ns    []string // namespaces currently open on this logger's context
}

func (d *vDerived) add(key string, v int64) Field {
	d.ctx = append(d.ctx, vPathField{ns: append([]string(nil), d.ns...), key: key, val: v})
	return Int64(key, v)
}

func vDerive(parent *vDerived, id string) *vDerived {
	d := &vDerived{names: append([]string(nil), parent.names...), ctx: append([]vPathField(nil), parent.ctx...), ns: append([]string(nil), parent.ns...)}
	x := vrt.Int64(id + ".x")
	if vNonNeg {
		vrt.Assume(x >= 0) // text encoders: keeps the sign of every number out of the path count
	}
	switch vOps[vrt.Choice(id+".op", len(vOps))] {
	case 0:
		d.log = parent.log.With(d.add("k"+id, x))
	case 1:
		d.log = parent.log.With(d.add("k"+id, x), d.add("j"+id, 7), d.add("h"+id, 8))
	case 2:
		d.log = parent.log.WithLazy(d.add("k"+id, x))
	case 3:
		// names are arbitrary text: some begin or end with the separator itself
		names := []string{"", "svc" + id, ".d" + id, "e" + id + "."}
		if vNarrowNames {
			names = names[:2]
		}
		n := names[vrt.Choice(id+".name", len(names))]
		if n != "" {
			d.names = append(d.names, n)
		}
		d.log = parent.log.Named(n)
	case 4:
		d.log = parent.log.WithOptions(Fields(d.add("k"+id, x)))
	case 5:
		d.log = parent.log.Sugar().With("k"+id, x).Desugar()
		d.ctx = append(d.ctx, vPathField{ns: append([]string(nil), d.ns...), key: "k" + id, val: x})
	case 6:
		f := Namespace("ns" + id)
		d.ns = append(d.ns, "ns"+id)
		d.log = parent.log.With(f, d.add("k"+id, x))
	case 11:
		// a marshaler over mutable state: With encodes what the state is now, whatever it becomes later
		cell := new(int64)
		*cell = x
		vMutCells = append(vMutCells, cell)
		want := x
		if !vEncodingCore {
			want = x + 1 // a core that only stores fields hands the marshaler on; it is evaluated when the harness reads the record
		}
		d.ctx = append(d.ctx, vPathField{ns: append(append([]string(nil), d.ns...), "m"+id), key: "v", val: want})
		d.log = parent.log.With(Object("m"+id, vMutObj{cell}))
	case 10:
		// an object whose marshaler opens a namespace of its own: it must not disturb the namespaces around it
		d.ctx = append(d.ctx, vPathField{ns: append(append([]string(nil), d.ns...), "o"+id, "in"), key: "v", val: x})
		d.log = parent.log.With(Object("o"+id, vNsObj{x}))
	case 9:
		// the context ends with a freshly opened namespace
		d.ns = append(d.ns, "ns"+id)
		d.log = parent.log.With(Namespace("ns" + id))
	case 7:
		d.log = parent.log.WithLazy(d.add("k"+id, x), d.add("j"+id, 7))
	case 8:
		// the sugared path builds its field slice with spare capacity
		d.log = parent.log.Sugar().WithLazy("k"+id, x).Desugar()
		d.ctx = append(d.ctx, vPathField{ns: append([]string(nil), d.ns...), key: "k" + id, val: x})
	}
	return d
}

func vJoin(names []string) string {
	s := ""
	for i, n := range names {
		if i > 0 {
			s += "."
		}
		s += n
	}
	return s
}

// vMutObj marshals the current value of a cell the harness changes after the derivations.
type vMutObj struct{ p *int64 }

func (o vMutObj) MarshalLogObject(enc zapcore.ObjectEncoder) error {
	enc.AddInt64("v", *o.p)
	return nil
}

var vMutCells []*int64

// vOps is the derivation menu in force (all 12 operations, or a sub-menu for the deeper programs).
var vOps = []int{0, 1, 2, 3, 4, 5, 6, 7, 8, 9, 10, 11}

var vAllOps = []int{0, 1, 2, 3, 4, 5, 6, 7, 8, 9, 10, 11}

// vCoreOps: one representative per mechanism (plain With, lazy With with spare capacity, sugared lazy With,
// naming, a trailing namespace, a namespace-opening object, mutable state).
var vCoreOps = []int{0, 7, 8, 3, 9, 10, 11}

// vEncodingCore: the core under test encodes context at With time (JSON / console IO cores, also below a sampler).
var vEncodingCore bool

// vNsObj opens a namespace inside its own object.
type vNsObj struct{ v int64 }

func (o vNsObj) MarshalLogObject(enc zapcore.ObjectEncoder) error {
	enc.OpenNamespace("in")
	enc.AddInt64("v", o.v)
	return nil
}

// vFlatten evaluates recorded fields into (namespace path, key, value) triples.
func vFlatten(fields []Field) []vPathField {
	var out []vPathField
	var ns []string
	for _, f := range fields {
		switch f.Type {
		case zapcore.NamespaceType:
			ns = append(ns, f.Key)
		case zapcore.Int64Type:
			out = append(out, vPathField{ns: append([]string(nil), ns...), key: f.Key, val: f.Integer})
		default:
			r := &vRecEnc{}
			f.AddTo(r)
			vFlattenCalls(r.calls, ns, &out)
		}
	}
	return out
}

// vFlattenCalls walks recorded encoder calls; a namespace opened inside an object ends with that object.
func vFlattenCalls(calls []vCall, ns []string, out *[]vPathField) {
	cur := append([]string(nil), ns...)
	for _, c := range calls {
		switch {
		case c.method == "OpenNamespace":
			cur = append(cur, c.key)
		case c.method == "AddObject":
			vFlattenCalls(c.fields, append(append([]string(nil), cur...), c.key), out)
		default:
			if v, ok := c.val.(int64); ok {
				*out = append(*out, vPathField{ns: append([]string(nil), cur...), key: c.key, val: v})
			}
		}
	}
}

func vSamePath(a, b []vPathField) bool {
	if len(a) != len(b) {
		return false
	}
	ok := true
	for i := range a {
		if a[i].key != b[i].key || len(a[i].ns) != len(b[i].ns) {
			return false
		}
		for j := range a[i].ns {
			if a[i].ns[j] != b[i].ns[j] {
				return false
			}
		}
		ok = ok && a[i].val == b[i].val
	}
	return ok
}

// vFromJSON flattens a decoded JSON object (after the message member) into triples.
func vFromJSON(v *vrt.JVal, ns []string, skip map[string]bool, out *[]vPathField, bad *bool) {
	for _, m := range v.Obj {
		k := string(m.Key)
		if len(ns) == 0 && skip[k] {
			continue
		}
		switch m.Val.Kind {
		case vrt.JObj:
			vFromJSON(m.Val, append(append([]string(nil), ns...), k), skip, out, bad)
		case vrt.JNum:
			var val int64
			found := false
			for _, c := range m.Val.Num {
				if tv, ok := vrt.TokInt(c); ok {
					val, found = tv, true
					break
				}
			}
			if !found {
				neg := false
				for _, c := range m.Val.Num {
					if c == '-' {
						neg = true
					} else {
						val = val*10 + int64(c-'0')
					}
				}
				if neg {
					val = -val
				}
			}
			*out = append(*out, vPathField{ns: append([]string(nil), ns...), key: k, val: val})
		default:
			*bad = true
		}
	}
}

type vFixedClock struct{}

func (vFixedClock) Now() time.Time                       { return time.Unix(0, 0) }
func (vFixedClock) NewTicker(time.Duration) *time.Ticker { return nil }

var vNonNeg bool

func vContextProgramOps(n int, ops []int, kinds ...int) {
	vOps = ops
	vContextProgram(n, kinds...)
	vOps = vAllOps
}

func vContextProgram(n int, kinds ...int) {
	var coreKind int
	if len(kinds) > 0 {
		coreKind = kinds[vrt.Choice("corekind", len(kinds))]
	} else {
		coreKind = vrt.Choice("core", 10)
	}
	vNonNeg = coreKind == 2 || coreKind == 3 || coreKind == 9
	vEncodingCore = vNonNeg
	rec := vNewCore("rec", zapcore.DebugLevel)
	rec2 := vNewCore("rec2", zapcore.DebugLevel)
	var obs *observer.ObservedLogs
	sink := &vLineSink{}
	var core zapcore.Core
	switch coreKind {
	case 0:
		core = rec
	case 1:
		core, obs = observer.New(zapcore.DebugLevel)
	case 2:
		core = zapcore.NewCore(zapcore.NewJSONEncoder(zapcore.EncoderConfig{MessageKey: "msg", NameKey: "logger"}), sink, zapcore.DebugLevel)
	case 3:
		core = zapcore.NewCore(zapcore.NewConsoleEncoder(zapcore.EncoderConfig{MessageKey: "msg", NameKey: "logger", EncodeName: zapcore.FullNameEncoder}), sink, zapcore.DebugLevel)
	case 4:
		core = zapcore.NewTee(rec, rec2)
	case 5:
		core = zapcore.NewSamplerWithOptions(rec, time.Second, 1<<30, 0)
	case 6:
		core = zapcore.RegisterHooks(rec, func(zapcore.Entry) error { return nil })
	case 7:
		c, err := zapcore.NewIncreaseLevelCore(rec, zapcore.InfoLevel)
		if err != nil {
			vrt.Fail("increase-level-construction")
			return
		}
		core = c
	case 8:
		core = zapcore.NewLazyWith(rec, nil)
	case 9: // a sampler (never dropping) over the JSON IO core: With below a wrapper still encodes at once
		core = zapcore.NewSamplerWithOptions(zapcore.NewCore(zapcore.NewJSONEncoder(zapcore.EncoderConfig{MessageKey: "msg", NameKey: "logger"}), sink, zapcore.DebugLevel), time.Second, 1<<30, 0)
	}
	vMutCells = nil
	root := &vDerived{log: New(core, WithClock(vFixedClock{}))}
	loggers := []*vDerived{root}
	for i := 1; i <= n; i++ {
		parent := loggers[vrt.Choice(vName("parent", i), len(loggers))]
		loggers = append(loggers, vDerive(parent, vName("s", i)))
	}
	// state behind With-ed marshalers changes after the derivations: eager With must not see it
	for _, c := range vMutCells {
		*c = *c + 1
	}
	// every logger logs once, forwards or backwards
	order := make([]int, len(loggers))
	for i := range order {
		order[i] = i
	}
	if vrt.Choice("order", 2) == 1 {
		for a, b := 0, len(order)-1; a < b; a, b = a+1, b-1 {
			order[a], order[b] = order[b], order[a]
		}
	}
	// the front end of the logging calls: the logger itself, or its sugared form obtained at the call
	sugared := !vNarrowNames && vrt.Choice("via", 2) == 1
	for pos, j := range order {
		d := loggers[j]
		y := vrt.Int64(vName("site", j))
		if vNonNeg {
			vrt.Assume(y >= 0)
		}
		if sugared {
			d.log.Sugar().Infow("m", "site", y)
		} else {
			d.log.Info("m", Int64("site", y))
		}
		if coreKind == 0 || coreKind >= 4 {
			if n := len(rec.st.writes); n > 0 {
				w := rec.st.writes[n-1]
				vrt.Observe("name", w.ent.LoggerName)
				vrt.Observe("nfields", len(w.fields))
			}
		}
		want := append(append([]vPathField(nil), d.ctx...), vPathField{ns: d.ns, key: "site", val: y})
		name := vJoin(d.names)
		switch coreKind {
		case 1:
			all := obs.All()
			if len(all) != pos+1 {
				vrt.Fail("one-entry-per-call")
				return
			}
			e := all[pos]
			vrt.Assert("context-exact-and-isolated", vSamePath(vFlatten(e.Context), want))
			vrt.Assert("name-is-dot-joined-path", e.LoggerName == name)
		case 2, 3, 9:
			if len(sink.lines) != pos+1 {
				vrt.Fail("one-line-per-call")
				return
			}
			line := sink.lines[pos]
			if coreKind == 3 {
				// console: [name \t] m \t {json}\n
				i := 0
				for i < len(line) && line[i] != '{' {
					i++
				}
				head := string(line[:i])
				wantHead := "m\t"
				if name != "" {
					wantHead = name + "\tm\t"
				}
				vrt.Assert("name-is-dot-joined-path", head == wantHead)
				line = line[i:]
			}
			v, rest, perr := vrt.ParseJSONValue(line, coreKind == 3)
			if perr != "" || string(rest) != "\n" {
				vrt.Fail("line-is-json")
				return
			}
			var got []vPathField
			bad := false
			vFromJSON(v, nil, map[string]bool{"msg": true, "logger": true}, &got, &bad)
			vrt.Assert("context-exact-and-isolated", !bad && vSamePath(got, want))
			if coreKind == 2 || coreKind == 9 {
				nm := v.Get("logger")
				if name == "" {
					vrt.Assert("name-is-dot-joined-path", nm == nil)
				} else {
					vrt.Assert("name-is-dot-joined-path", nm != nil && string(nm.Str) == name)
				}
			}
		default:
			if len(rec.st.writes) != pos+1 {
				vrt.Fail("one-entry-per-call")
				return
			}
			w := rec.st.writes[pos]
			vrt.Assert("context-exact-and-isolated", vSamePath(vFlatten(w.fields), want))
			vrt.Assert("name-is-dot-joined-path", w.ent.LoggerName == name)
			if coreKind == 4 {
				vrt.Assert("tee-branches-agree", len(rec2.st.writes) == pos+1 && vSamePath(vFlatten(rec2.st.writes[pos].fields), want))
			}
		}
	}
	vrt.Cover("done")
}

type vLineSink struct{ lines [][]byte }

func (s *vLineSink) Write(p []byte) (int, error) {
	s.lines = append(s.lines, append([]byte(nil), p...))
	return len(p), nil
}
func (s *vLineSink) Sync() error { return nil }

//verif: prop=C07 bounds="derivation programs of 2 steps (each: parent chosen among earlier loggers; op in {With 1 field, With 3 fields, WithLazy 1 field, WithLazy 2 fields, Named(empty | name | name beginning with a dot | name ending with a dot), WithOptions(Fields), Sugar.With.Desugar, Sugar.WithLazy.Desugar, Namespace+field, Namespace alone, an object whose marshaler opens its own namespace, With of a marshaler over state that changes after the derivation}), symbolic int64 values, over the storing/wrapping cores (observer, tee, sampler, hooked, increase-level); every logger logs once, forwards or backwards, directly or through Sugar()"
func VC07Program2() { vContextProgram(2, 1, 4, 5, 6, 7) }

//verif: prop=C07 bounds="derivation programs of 2 steps from the 7-operation core menu over the encoding cores (JSON, console, sampler over JSON), output decoded"
func VC07Program2Text() { vContextProgramOps(2, vCoreOps, 2, 3, 9) }

//verif: prop=C07 tier=thorough bounds="derivation programs of 3 steps from the 7-operation core menu (With, WithLazy 2 fields, Sugar.WithLazy, Named(empty | plain name), Namespace alone, namespace-opening object, mutable-state marshaler) over all 10 core kinds"
func VC07Program3() { vNarrowNames = true; vContextProgramOps(3, vCoreOps) }

//verif: prop=C07 bounds="derivation programs of 3 steps (so that two siblings can be derived from a derived, still unused parent) over the recorder core and the lazy-with core"
func VC07Program3Rec() { vContextProgram(3, 0, 8) }

//verif: prop=C07 tier=thorough bounds="derivation programs of 4 steps from the 7-operation core menu over the recorder core"
func VC07Program4Rec() { vNarrowNames = true; vContextProgramOps(4, vCoreOps, 0) }

// vNarrowNames restricts Named to {empty, plain name} in the largest programs (the dotted names are covered by the smaller ones).
var vNarrowNames bool
