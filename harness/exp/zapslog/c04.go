//go:build verif

package zapslog

import (
	"context"
	"log/slog"
	"sync"
	"time"

	vrt "go.uber.org/zap/internal/vrt"
	"go.uber.org/zap/zapcore"
)

// C04 through the slog front end: goroutines that each derive their own child from one shared handler and
// log through one locked sink. The sink is not thread-safe and yields in the middle of every write.

type vRawSink4 struct {
	inside int
	stream []byte
}

func (s *vRawSink4) Write(p []byte) (int, error) {
	s.inside++
	vrt.Assert("sink-never-entered-by-two-goroutines-at-once", s.inside == 1)
	vrt.Assert("every-sink-write-is-made-of-whole-lines", len(p) > 0 && p[len(p)-1] == '\n')
	half := len(p) / 2
	s.stream = append(s.stream, p[:half]...)
	vrt.Yield()
	s.stream = append(s.stream, p[half:]...)
	s.inside--
	return len(p), nil
}
func (s *vRawSink4) Sync() error { return nil }

//verif: prop=C04 bounds="slog handler over a JSON core with a locked raw sink, 0..4 groups open on the shared handler (opened one at a time); two goroutines each derive a child of their own (WithGroup, or WithAttrs) and log one record through it: the sink holds exactly one intact line per record, each the line of the entry that goroutine logged; every interleaving of synchronisation operations with at most 2 preemptions; race monitor on"
func VC04Slog() {
	sink := &vRawSink4{}
	core := zapcore.NewCore(zapcore.NewJSONEncoder(zapcore.EncoderConfig{MessageKey: "m"}), zapcore.Lock(sink), zapcore.DebugLevel)
	var h slog.Handler = NewHandler(core, WithCaller(false))
	depth := vrt.Choice("depth", 5)
	open, shut := "", ""
	for i := 0; i < depth; i++ {
		name := string(rune('a' + i))
		h = h.WithGroup(name)
		open += `"` + name + `":{`
		shut += "}"
	}
	derive := vrt.Choice("derive", 2)
	want := make([]string, 2)
	var wg sync.WaitGroup
	wg.Add(2)
	for g := 0; g < 2; g++ {
		id := string(rune('0' + g))
		if derive == 0 {
			want[g] = `{"m":"m` + id + `",` + open + `"w` + id + `":{"g":` + id + `}` + shut + `}`
		} else {
			want[g] = `{"m":"m` + id + `",` + open + `"w` + id + `":` + id + `,"g":` + id + shut + `}`
		}
		go func(g int) {
			defer wg.Done()
			var child slog.Handler
			if derive == 0 {
				child = h.WithGroup("w" + id)
			} else {
				child = h.WithAttrs([]slog.Attr{slog.Int("w"+id, g)})
			}
			r := slog.NewRecord(time.Unix(1, 0), slog.LevelInfo, "m"+id, 0)
			r.AddAttrs(slog.Int("g", g))
			_ = child.Handle(context.Background(), r)
		}(g)
	}
	wg.Wait()
	// exactly the two lines, in either order
	got := string(sink.stream)
	ok := got == want[0]+"\n"+want[1]+"\n" || got == want[1]+"\n"+want[0]+"\n"
	vrt.Assert("one-intact-line-per-entry-as-logged", ok)
	vrt.Cover("done")
}
