//go:build verif

package zapslog

import (
	"context"
	"log/slog"
	"sync"
	"time"

	vrt "go.uber.org/zap/internal/vrt"
	"go.uber.org/zap/zapcore"
	"go.uber.org/zap/zaptest/observer"
)

//verif: prop=C09 bounds="slog handler shared by two goroutines: Handle || Handle, Handle || WithAttrs+Handle, Handle || WithGroup+Handle, on a handler with pending groups, fresh or warmed up; observer core; every interleaving of synchronisation operations with at most 2 preemptions; happens-before race monitor"
func VC09Slog() {
	core, _ := observer.New(zapcore.DebugLevel)
	var h slog.Handler = NewHandler(core, WithCaller(false))
	h = h.WithGroup("g")
	rec := func(msg string) slog.Record {
		r := slog.NewRecord(time.Unix(1, 0), slog.LevelInfo, msg, 0)
		r.AddAttrs(slog.Int("a", 1))
		return r
	}
	if vrt.Choice("warm", 2) == 1 {
		_ = h.Handle(context.Background(), rec("warm"))
	}
	prog := vrt.Choice("program", 3)
	var wg sync.WaitGroup
	wg.Add(2)
	go func() { defer wg.Done(); _ = h.Handle(context.Background(), rec("a")) }()
	go func() {
		defer wg.Done()
		switch prog {
		case 0:
			_ = h.Handle(context.Background(), rec("b"))
		case 1:
			_ = h.WithAttrs([]slog.Attr{slog.String("k", "v")}).Handle(context.Background(), rec("b"))
		case 2:
			_ = h.WithGroup("h").Handle(context.Background(), rec("b"))
		}
	}()
	wg.Wait()
	vrt.Cover("done")
}
