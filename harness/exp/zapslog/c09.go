//go:build verif

package zapslog

import (
	"context"
	"log/slog"
	"sync"
	"time"

	vrt "go.uber.org/zap/internal/vrt"
	"go.uber.org/zap/zapcore"
	"go.uber.org/zap/zaptest/observer"
)

//verif: prop=C09 bounds="slog handler shared by two goroutines: Handle || Handle, Handle || WithAttrs+Handle, Handle || WithGroup+Handle, WithGroup+Handle || WithGroup+Handle, on a handler with pending groups (also held in a slice with spare capacity), fresh or warmed up; observer core; every interleaving of synchronisation operations with at most 2 preemptions; happens-before race monitor"
func VC09Slog() {
	core, _ := observer.New(zapcore.DebugLevel)
	root := NewHandler(core, WithCaller(false))
	var h slog.Handler = root.WithGroup("g")
	if vrt.Choice("spare", 2) == 1 {
		// the pending-group slice has spare capacity (a state chains of WithGroup calls may produce):
		// siblings derived concurrently must not write into the same backing array
		gs := make([]string, 1, 4)
		gs[0] = "g"
		cloned := *root
		cloned.groups = gs
		h = &cloned
	}
	rec := func(msg string) slog.Record {
		r := slog.NewRecord(time.Unix(1, 0), slog.LevelInfo, msg, 0)
		r.AddAttrs(slog.Int("a", 1))
		return r
	}
	if vrt.Choice("warm", 2) == 1 {
		_ = h.Handle(context.Background(), rec("warm"))
	}
	prog := vrt.Choice("program", 4)
	var wg sync.WaitGroup
	wg.Add(2)
	go func() {
		defer wg.Done()
		if prog == 3 {
			_ = h.WithGroup("k").Handle(context.Background(), rec("a")) // two siblings derived at once
			return
		}
		_ = h.Handle(context.Background(), rec("a"))
	}()
	go func() {
		defer wg.Done()
		switch prog {
		case 0:
			_ = h.Handle(context.Background(), rec("b"))
		case 1:
			_ = h.WithAttrs([]slog.Attr{slog.String("k", "v")}).Handle(context.Background(), rec("b"))
		case 2, 3:
			_ = h.WithGroup("h").Handle(context.Background(), rec("b"))
		}
	}()
	wg.Wait()
	vrt.Cover("done")
}
