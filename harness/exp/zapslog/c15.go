//go:build verif

package zapslog

import (
	"context"
	"log/slog"
	"runtime"
	"strings"
	"time"

	vrt "go.uber.org/zap/internal/vrt"
	"go.uber.org/zap/zapcore"
)

// vSlogSite logs through a real slog.Logger, which records the program counter of its caller in the record.
// The expected position is taken on the same source line.
func vSlogSite(lg *slog.Logger, lvl slog.Level) (file string, line int, fn string) {
	var pc uintptr
	if lvl == slog.LevelInfo {
		pc, file, line, _ = runtime.Caller(0); lg.Info("m", "k", 1)
	} else {
		pc, file, line, _ = runtime.Caller(0); lg.Log(context.Background(), lvl, "m")
	}
	fn = runtime.FuncForPC(pc).Name()
	return
}

// vSlogWrapped logs through one helper frame; the handler is configured with WithCallerSkip(1) for it.
func vSlogWrapped(lg *slog.Logger) (fn string) {
	pc, _, _, _ := runtime.Caller(0); vSlogHelper(lg)
	return runtime.FuncForPC(pc).Name()
}

func vSlogHelper(lg *slog.Logger) { lg.Error("m") }

//verif: prop=C15 bounds="slog handler built with WithCallerSkip(1) and used behind one helper function, plain or derived by WithGroup / WithAttrs: the stack trace of an Error record starts at the helper's caller and does not contain the helper"
func VC15SlogSkip() {
	core := vNewRecCore(zapcore.DebugLevel)
	var h slog.Handler = NewHandler(core, WithCaller(true), WithCallerSkip(1), AddStacktraceAt(slog.LevelError))
	switch vrt.Choice("derive", 3) {
	case 1:
		h = h.WithGroup("g")
	case 2:
		h = h.WithAttrs([]slog.Attr{slog.Int("a", 1)})
	}
	fn := vSlogWrapped(slog.New(h))
	if len(*core.writes) != 1 {
		vrt.Fail("one-entry")
		return
	}
	e := (*core.writes)[0].ent
	vrt.Observe("stack-starts-at-site", strings.HasPrefix(e.Stack, fn+"\n"))
	vrt.Assert("stack-shifted-outward-by-the-configured-skip", strings.HasPrefix(e.Stack, fn+"\n"))
	vrt.Assert("skipped-helper-not-in-the-stack", !strings.Contains(e.Stack, "zapslog.vSlogHelper"))
	// the caller annotation is the call site slog recorded (inside the helper), whatever the stack settings
	vrt.Observe("caller-fn", e.Caller.Function)
	vrt.Assert("caller-is-the-call-site-slog-recorded", e.Caller.Defined && strings.HasSuffix(e.Caller.Function, "zapslog.vSlogHelper"))
}

// vSlogByHand is the wrapper pattern of the log/slog documentation: the record is built by hand with a
// program counter of the wrapper's choosing and handed to the handler directly.
func vSlogByHand(h slog.Handler, lvl slog.Level) (file string, line int, fn string) {
	var pcs [1]uintptr
	var pc uintptr
	pc, file, line, _ = runtime.Caller(0); runtime.Callers(1, pcs[:])
	r := slog.NewRecord(time.Unix(1, 0), lvl, "m", pcs[0])
	_ = h.Handle(context.Background(), r)
	return file, line, runtime.FuncForPC(pc).Name()
}

func vDeep15(n int, f func()) {
	if n == 0 {
		f()
		return
	}
	vDeep15(n-1, f)
}

//verif: prop=C15 bounds="a record built by hand (program counter taken with runtime.Callers by a wrapper) handed straight to Handle, at Info and at Error (stack attached), handler plain or derived, caller skip 0 or 1: the caller is the position the record carries, not a position derived from the handler's own stack"
func VC15SlogRecord() {
	core := vNewRecCore(zapcore.DebugLevel)
	opts := []HandlerOption{WithCaller(true), AddStacktraceAt(slog.LevelError)}
	if vrt.Choice("skip", 2) == 1 {
		opts = append(opts, WithCallerSkip(1))
	}
	var h slog.Handler = NewHandler(core, opts...)
	switch vrt.Choice("derive", 3) {
	case 1:
		h = h.WithGroup("g")
	case 2:
		h = h.WithAttrs([]slog.Attr{slog.Int("a", 1)})
	}
	lvl := []slog.Level{slog.LevelInfo, slog.LevelError}[vrt.Choice("level", 2)]
	// a few frames between the harness and the wrapper, so that the handler's fixed skip of 3 frames leaves
	// something on the stack in the executor as it does under the test runner
	var file, fn string
	var line int
	vDeep15(4, func() { file, line, fn = vSlogByHand(h, lvl) })
	if len(*core.writes) != 1 {
		vrt.Fail("one-entry")
		return
	}
	e := (*core.writes)[0].ent
	vrt.Observe("caller-line", e.Caller.Line)
	vrt.Observe("caller-fn", e.Caller.Function)
	vrt.Assert("caller-is-the-call-site-slog-recorded", e.Caller.Defined && e.Caller.File == file && e.Caller.Line == line && e.Caller.Function == fn)
	vrt.Assert("stack-attached-exactly-for-configured-levels", (e.Stack != "") == (lvl >= slog.LevelError))
}

//verif: prop=C15 bounds="slog handler with WithCaller on/off, after 0..1 WithGroup/WithAttrs derivation, record level in {Info, Error}: the caller is the call site slog recorded (the record's PC), defined exactly when caller annotation is on; a stack is attached exactly from the configured slog level up; modelled runtime"
func VC15Slog() {
	core := vNewRecCore(zapcore.DebugLevel)
	withCaller := vrt.Choice("caller", 2) == 1
	var h slog.Handler = NewHandler(core, WithCaller(withCaller), AddStacktraceAt(slog.LevelWarn))
	switch vrt.Choice("derive", 3) {
	case 1:
		h = h.WithGroup("g")
	case 2:
		h = h.WithAttrs([]slog.Attr{slog.Int("a", 1)})
	}
	lvl := []slog.Level{slog.LevelInfo, slog.LevelError}[vrt.Choice("level", 2)]
	file, line, fn := vSlogSite(slog.New(h), lvl)
	if len(*core.writes) != 1 {
		vrt.Fail("one-entry")
		return
	}
	e := (*core.writes)[0].ent
	vrt.Observe("caller-defined", e.Caller.Defined)
	vrt.Observe("caller-line", e.Caller.Line)
	if withCaller {
		vrt.Assert("caller-is-the-call-site-slog-recorded", e.Caller.Defined && e.Caller.File == file && e.Caller.Line == line && e.Caller.Function == fn)
	} else {
		vrt.Assert("no-caller-when-annotation-is-off", !e.Caller.Defined)
	}
	vrt.Assert("stack-attached-exactly-for-configured-levels", (e.Stack != "") == (lvl >= slog.LevelWarn))
	if e.Stack != "" {
		vrt.Assert("stack-starts-at-the-call-site", strings.HasPrefix(e.Stack, fn+"\n"))
		vrt.Assert("stack-contains-the-outermost-user-frame", strings.Contains(e.Stack, "zapslog.VC15Slog"))
	}
}
