//go:build verif

package zapslog

import (
	"context"
	"fmt"
	"log/slog"
	"math"
	"time"

	vrt "go.uber.org/zap/internal/vrt"
	"go.uber.org/zap/zapcore"
)

// ---------------------------------------------------------------- recording core

type vRecCore struct {
	enab   zapcore.LevelEnabler
	ctx    []zapcore.Field
	writes *[]vRecWrite
}

type vRecWrite struct {
	ent    zapcore.Entry
	fields []zapcore.Field
}

func vNewRecCore(enab zapcore.LevelEnabler) *vRecCore {
	return &vRecCore{enab: enab, writes: &[]vRecWrite{}}
}
func (c *vRecCore) Enabled(l zapcore.Level) bool { return c.enab.Enabled(l) }
func (c *vRecCore) With(fs []zapcore.Field) zapcore.Core {
	n := *c
	n.ctx = append(append([]zapcore.Field(nil), c.ctx...), fs...)
	return &n
}
func (c *vRecCore) Check(e zapcore.Entry, ce *zapcore.CheckedEntry) *zapcore.CheckedEntry {
	if c.Enabled(e.Level) {
		return ce.AddCore(e, c)
	}
	return ce
}
func (c *vRecCore) Write(e zapcore.Entry, fs []zapcore.Field) error {
	all := append(append([]zapcore.Field(nil), c.ctx...), fs...)
	*c.writes = append(*c.writes, vRecWrite{e, all})
	return nil
}
func (c *vRecCore) Sync() error { return nil }

// ---------------------------------------------------------------- observed tree

// vNode is one member of the emitted entry: an object (group / namespace) or a typed leaf.
type vNode struct {
	key  string
	obj  bool
	kids []*vNode
	kind string // leaf: encoder method family
	i    int64
	u    uint64
	f    uint64 // float bits
	s    string
	b    bool
}

// vTreeEnc evaluates fields into a vNode tree, the way any ObjectEncoder nests them.
type vTreeEnc struct{ cur *vNode }

func (e *vTreeEnc) leaf(n *vNode) { e.cur.kids = append(e.cur.kids, n) }

func (e *vTreeEnc) AddArray(k string, m zapcore.ArrayMarshaler) error {
	e.leaf(&vNode{key: k, kind: "array"})
	return nil
}
func (e *vTreeEnc) AddObject(k string, m zapcore.ObjectMarshaler) error {
	n := &vNode{key: k, obj: true}
	e.leaf(n)
	return m.MarshalLogObject(&vTreeEnc{cur: n})
}
func (e *vTreeEnc) AddBinary(k string, v []byte)     { e.leaf(&vNode{key: k, kind: "binary", s: string(v)}) }
func (e *vTreeEnc) AddByteString(k string, v []byte) { e.leaf(&vNode{key: k, kind: "bytestring", s: string(v)}) }
func (e *vTreeEnc) AddBool(k string, v bool)         { e.leaf(&vNode{key: k, kind: "bool", b: v}) }
func (e *vTreeEnc) AddComplex128(k string, v complex128) {
	e.leaf(&vNode{key: k, kind: "complex"})
}
func (e *vTreeEnc) AddComplex64(k string, v complex64) { e.leaf(&vNode{key: k, kind: "complex"}) }
func (e *vTreeEnc) AddDuration(k string, v time.Duration) {
	e.leaf(&vNode{key: k, kind: "duration", i: int64(v)})
}
func (e *vTreeEnc) AddFloat64(k string, v float64) {
	e.leaf(&vNode{key: k, kind: "float64", f: math.Float64bits(v)})
}
func (e *vTreeEnc) AddFloat32(k string, v float32) { e.leaf(&vNode{key: k, kind: "float32"}) }
func (e *vTreeEnc) AddInt(k string, v int)         { e.leaf(&vNode{key: k, kind: "int", i: int64(v)}) }
func (e *vTreeEnc) AddInt64(k string, v int64)     { e.leaf(&vNode{key: k, kind: "int64", i: v}) }
func (e *vTreeEnc) AddInt32(k string, v int32)     { e.leaf(&vNode{key: k, kind: "int32", i: int64(v)}) }
func (e *vTreeEnc) AddInt16(k string, v int16)     { e.leaf(&vNode{key: k, kind: "int16", i: int64(v)}) }
func (e *vTreeEnc) AddInt8(k string, v int8)       { e.leaf(&vNode{key: k, kind: "int8", i: int64(v)}) }
func (e *vTreeEnc) AddString(k, v string)          { e.leaf(&vNode{key: k, kind: "string", s: v}) }
func (e *vTreeEnc) AddTime(k string, v time.Time) {
	e.leaf(&vNode{key: k, kind: "time", i: v.Unix()})
}
func (e *vTreeEnc) AddUint(k string, v uint)       { e.leaf(&vNode{key: k, kind: "uint", u: uint64(v)}) }
func (e *vTreeEnc) AddUint64(k string, v uint64)   { e.leaf(&vNode{key: k, kind: "uint64", u: v}) }
func (e *vTreeEnc) AddUint32(k string, v uint32)   { e.leaf(&vNode{key: k, kind: "uint32", u: uint64(v)}) }
func (e *vTreeEnc) AddUint16(k string, v uint16)   { e.leaf(&vNode{key: k, kind: "uint16", u: uint64(v)}) }
func (e *vTreeEnc) AddUint8(k string, v uint8)     { e.leaf(&vNode{key: k, kind: "uint8", u: uint64(v)}) }
func (e *vTreeEnc) AddUintptr(k string, v uintptr) { e.leaf(&vNode{key: k, kind: "uintptr", u: uint64(v)}) }
func (e *vTreeEnc) AddReflected(k string, v interface{}) error {
	n := &vNode{key: k, kind: "reflected"}
	if p, ok := v.(vPayload); ok {
		n.i = p.N
	}
	e.leaf(n)
	return nil
}
func (e *vTreeEnc) OpenNamespace(k string) {
	n := &vNode{key: k, obj: true}
	e.leaf(n)
	e.cur = n
}

func vEvalFields(fs []zapcore.Field) *vNode {
	root := &vNode{obj: true}
	enc := &vTreeEnc{cur: root}
	for _, f := range fs {
		f.AddTo(enc)
	}
	return root
}

// vSameTree compares two trees member by member, in order; scalar payloads by value (solver-decided when symbolic).
func vSameTree(a, b *vNode) bool {
	if a.key != b.key || a.obj != b.obj || len(a.kids) != len(b.kids) || a.kind != b.kind {
		return false
	}
	ok := a.i == b.i
	ok = ok && a.u == b.u
	ok = ok && a.f == b.f
	ok = ok && a.s == b.s
	ok = ok && a.b == b.b
	if !ok {
		return false
	}
	for i := range a.kids {
		if !vSameTree(a.kids[i], b.kids[i]) {
			return false
		}
	}
	return true
}

func vRender(n *vNode) string {
	if !n.obj {
		return n.key + ":" + n.kind
	}
	s := n.key + "{"
	for i, k := range n.kids {
		if i > 0 {
			s += ","
		}
		s += vRender(k)
	}
	return s + "}"
}

// ---------------------------------------------------------------- attribute menu with its reference meaning

type vPayload struct{ N int64 }

type vValuer struct{ v slog.Value }

func (v vValuer) LogValue() slog.Value { return v.v }

// vAttr returns attribute number sel of the menu together with what the slog.Handler contract says must
// appear for it (nil slice: nothing). Keys are made unique by id.
func vAttr(id string, sel int) (slog.Attr, []*vNode) {
	k := "k" + id
	switch sel {
	case 0:
		x := vrt.Int64(id + ".i")
		return slog.Int64(k, x), []*vNode{{key: k, kind: "int64", i: x}}
	case 1:
		s := "s" + vrt.String(id+".s", 1)
		return slog.String(k, s), []*vNode{{key: k, kind: "string", s: s}}
	case 2: // empty attribute: ignored
		return slog.Attr{}, nil
	case 3: // named group with one member
		x := vrt.Int64(id + ".g")
		return slog.Group(k, slog.Int64("m", x)), []*vNode{{key: k, obj: true, kids: []*vNode{{key: "m", kind: "int64", i: x}}}}
	case 4: // inline group (empty key): members appear at the enclosing level
		x := vrt.Int64(id + ".in")
		return slog.Group("", slog.Int64(k+"a", x), slog.Bool(k+"b", true)),
			[]*vNode{{key: k + "a", kind: "int64", i: x}, {key: k + "b", kind: "bool", b: true}}
	case 5: // group without attributes: omitted
		vrt.Tag("attr=empty-group")
		return slog.Group(k), nil
	case 6: // LogValuer resolving to a scalar
		x := vrt.Int64(id + ".lv")
		return slog.Any(k, vValuer{slog.Int64Value(x)}), []*vNode{{key: k, kind: "int64", i: x}}
	case 7: // LogValuer resolving to a group: becomes an object under the attribute's key
		x := vrt.Int64(id + ".lg")
		return slog.Any(k, vValuer{slog.GroupValue(slog.Int64("m", x))}), []*vNode{{key: k, obj: true, kids: []*vNode{{key: "m", kind: "int64", i: x}}}}
	case 8: // LogValuer resolving to a group without attributes: omitted
		vrt.Tag("attr=valuer-empty-group")
		return slog.Any(k, vValuer{slog.GroupValue()}), nil
	case 9: // nested groups, an empty attribute and an inline group inside a group
		x := vrt.Int64(id + ".n")
		return slog.Group(k, slog.Int64("a", x), slog.Attr{}, slog.Group("in", slog.Uint64("u", 7)), slog.Group("", slog.String("z", "z"))),
			[]*vNode{{key: k, obj: true, kids: []*vNode{{key: "a", kind: "int64", i: x},
				{key: "in", obj: true, kids: []*vNode{{key: "u", kind: "uint64", u: 7}}}, {key: "z", kind: "string", s: "z"}}}}
	case 10:
		x := vrt.Uint64(id + ".u")
		return slog.Uint64(k, x), []*vNode{{key: k, kind: "uint64", u: x}}
	case 11:
		f := vrt.Float64(id + ".f")
		return slog.Float64(k, f), []*vNode{{key: k, kind: "float64", f: math.Float64bits(f)}}
	case 12:
		d := vrt.Int64(id + ".d")
		return slog.Duration(k, time.Duration(d)), []*vNode{{key: k, kind: "duration", i: d}}
	case 13:
		b := vrt.Bool(id + ".b")
		return slog.Bool(k, b), []*vNode{{key: k, kind: "bool", b: b}}
	case 14:
		// concrete instants: slog keeps a time as UnixNano and rebuilds it, a multiply/divide-by-1e9 kernel
		// that is C03's subject (VC03_Time), not this property's
		sec := []int64{0, 1700000000, -5}[vrt.Choice(id+".t", 3)]
		return slog.Time(k, time.Unix(sec, 0)), []*vNode{{key: k, kind: "time", i: sec}}
	case 16: // inside a group: a LogValuer member resolving to a group without attributes (omitted) between two that stay
		x := vrt.Int64(id + ".gv")
		vrt.Tag("attr=valuer-empty-group-inside-a-group")
		return slog.Group(k, slog.Int64("a", x), slog.Any("h", vValuer{slog.GroupValue()}), slog.Any("v", vValuer{slog.Int64Value(x)}),
				slog.Any("vg", vValuer{slog.GroupValue(slog.Bool("t", true))})),
			[]*vNode{{key: k, obj: true, kids: []*vNode{{key: "a", kind: "int64", i: x}, {key: "v", kind: "int64", i: x},
				{key: "vg", obj: true, kids: []*vNode{{key: "t", kind: "bool", b: true}}}}}}
	case 17: // the same members inside an inline group and inside a LogValuer's group
		x := vrt.Int64(id + ".iv")
		vrt.Tag("attr=valuer-empty-group-inside-inline-group")
		return slog.Group("", slog.Any(k+"h", vValuer{slog.GroupValue()}), slog.Int64(k+"a", x),
				slog.Any(k+"w", vValuer{slog.GroupValue(slog.Any("h", vValuer{slog.GroupValue()}), slog.Int64("m", x))})),
			[]*vNode{{key: k + "a", kind: "int64", i: x}, {key: k + "w", obj: true, kids: []*vNode{{key: "m", kind: "int64", i: x}}}}
	default: // any other value: handed to the encoder as is
		x := vrt.Int64(id + ".any")
		return slog.Any(k, vPayload{x}), []*vNode{{key: k, kind: "reflected", i: x}}
	}
}

const vMenuFull = 18

var vLite = []int{0, 2, 3, 4, 5}

var vMini = []int{0, 5}

// ---------------------------------------------------------------- derivation programs

// vHandlerState is the reference view of a derived handler: the chain of (group depth, expected nodes)
// contributed by WithAttrs, and the open group path.
type vHandlerState struct {
	h      slog.Handler
	groups []string
	items  []vItem
}

type vItem struct {
	depth int
	nodes []*vNode
}

// derive applies one step: 0 WithGroup(name), 1 WithAttrs(1 attr), 2 WithAttrs(2 attrs), 3 WithGroup("") (the first nops of these).
func (s *vHandlerState) derive(id string, menu []int, nops int) *vHandlerState {
	n := &vHandlerState{groups: append([]string(nil), s.groups...), items: append([]vItem(nil), s.items...)}
	switch vrt.Choice(id+".op", nops) {
	case 0:
		g := "g" + id
		n.h = s.h.WithGroup(g)
		n.groups = append(n.groups, g)
	case 1:
		a, want := vAttr(id+"a", menu[vrt.Choice(id+".a", len(menu))])
		n.h = s.h.WithAttrs([]slog.Attr{a})
		n.items = append(n.items, vItem{len(n.groups), want})
	case 2:
		a, wa := vAttr(id+"a", vLite[vrt.Choice(id+".a", len(vLite))])
		b, wb := vAttr(id+"b", vLite[vrt.Choice(id+".b", len(vLite))])
		n.h = s.h.WithAttrs([]slog.Attr{a, b})
		n.items = append(n.items, vItem{len(n.groups), wa}, vItem{len(n.groups), wb})
	case 3: // an empty group name opens no group
		vrt.Tag("op=WithGroup-empty-name")
		n.h = s.h.WithGroup("")
	}
	return n
}

// expected builds the tree the contract prescribes for a record with the given attribute nodes.
func (s *vHandlerState) expected(record []vItem) *vNode {
	root := &vNode{obj: true}
	ns := make([]*vNode, len(s.groups))
	at := func(depth int) *vNode {
		cur := root
		for d := 0; d < depth; d++ {
			if ns[d] == nil {
				ns[d] = &vNode{key: s.groups[d], obj: true}
				cur.kids = append(cur.kids, ns[d])
			}
			cur = ns[d]
		}
		return cur
	}
	for _, it := range append(append([]vItem(nil), s.items...), record...) {
		if len(it.nodes) == 0 {
			continue // nothing to emit: opens no group either
		}
		n := at(it.depth)
		n.kids = append(n.kids, it.nodes...)
	}
	return root
}

func vAll(n int) []int {
	out := make([]int, n)
	for i := range out {
		out[i] = i
	}
	return out
}

// vLogAndCompare sends one record through s.h and compares what reached the core with the reference.
func vLogAndCompare(core *vRecCore, s *vHandlerState, id string, menu []int, maxAttrs int) {
	na := vrt.Choice(id+".nattrs", maxAttrs+1)
	r := slog.NewRecord(time.Unix(1, 0), slog.LevelInfo, "msg", 0)
	var rec []vItem
	for i := 0; i < na; i++ {
		m := menu
		if i > 0 {
			m = vLite
		}
		a, want := vAttr(fmt.Sprintf("%sr%d", id, i), m[vrt.Choice(fmt.Sprintf("%s.r%d", id, i), len(m))])
		r.AddAttrs(a)
		rec = append(rec, vItem{len(s.groups), want})
	}
	before := len(*core.writes)
	err := s.h.Handle(context.Background(), r)
	vrt.Assert("handle-returns-nil", err == nil)
	if len(*core.writes) != before+1 {
		vrt.Fail("one-entry-per-record")
		return
	}
	w := (*core.writes)[before]
	got := vEvalFields(w.fields)
	want := s.expected(rec)
	vrt.Observe("tree", vRender(got))
	vrt.Assert("attributes-nested-as-the-slog-contract-prescribes", vSameTree(got, want))
	vrt.Assert("message-and-level", w.ent.Message == "msg" && w.ent.Level == zapcore.InfoLevel)
}

func vChain(n int, fullMenu bool, maxAttrs int) {
	core := vNewRecCore(zapcore.DebugLevel)
	s := &vHandlerState{h: NewHandler(core)}
	menu := vLite
	if fullMenu {
		menu = vAll(vMenuFull)
	}
	steps := vrt.Choice("steps", n+1)
	for i := 0; i < steps; i++ {
		s = s.derive(fmt.Sprintf("d%d", i), menu, 4)
	}
	vLogAndCompare(core, s, "x", menu, maxAttrs)
	vrt.Cover("done")
}

//verif: prop=C18 bounds="derivation chains of 0..2 steps from {WithGroup(name), WithGroup(empty), WithAttrs(1 attr), WithAttrs(2 attrs)} over the 5-entry lite menu {int64, empty Attr, named group, inline group, group without attributes} then a record with 0..2 attributes (first from the lite menu here, from the full menu in VC18Attrs); full menu: int64/uint64/float64/bool/duration/time/string/any with symbolic payloads, empty Attr, named group, inline group, group without attributes, nested groups, LogValuers resolving to a scalar, a group and an empty group. Groups whose only members are empty attributes are outside the menu (log/slog's own handlers print {} for them)"
func VC18Chain2() { vChain(2, false, 2) }

//verif: prop=C18 bounds="0..1 derivation step with the full 18-entry menu (scalars of every kind, empty attribute, named/inline/empty groups, LogValuers resolving to scalars, groups and empty groups, at top level and as members of groups), then a record whose first attribute is from the full menu and whose second from the lite menu"
func VC18Attrs() { vChain(1, true, 2) }

//verif: prop=C18 tier=thorough bounds="derivation chains of 0..3 steps (lite menu in derivations, full menu in the record)"
func VC18Chain3() { vChain(3, false, 2) }

// Branching: siblings and parents are unaffected by a derivation. The parent's pending-group slice is given
// spare capacity, a state any chain of WithGroup calls may produce, so that aliasing between siblings shows.
func vSiblings() {
	core := vNewRecCore(zapcore.DebugLevel)
	root := NewHandler(core)
	parent := &vHandlerState{h: root}
	switch vrt.Choice("parent", 3) {
	case 1:
		parent = parent.derive("p", vMini, 2)
	case 2: // one pending group held in a slice with spare capacity
		gs := make([]string, 1, 4)
		gs[0] = "gp"
		cloned := *root
		cloned.groups = gs
		parent = &vHandlerState{h: &cloned, groups: []string{"gp"}}
	}
	a := parent.derive("a", vMini, 2)
	b := parent.derive("b", vMini, 2)
	order := [][]*vHandlerState{{a, b, parent}, {b, a, parent}, {parent, b, a}}[vrt.Choice("order", 3)]
	for i, s := range order {
		vLogAndCompare(core, s, fmt.Sprintf("l%d", i), vMini[:1], 1)
	}
	vrt.Cover("done")
}

//verif: prop=C18 bounds="a parent (fresh, one derivation step, or one pending group in a slice with spare capacity) with two children each derived by one step from {WithGroup, WithAttrs(int64), WithAttrs(group without attributes)}; parent and children each handle a record with 0..1 int64 attribute in 3 orders: every output equals its own reference (no effect on parent or siblings)"
func VC18Siblings() { vSiblings() }

// Levels.
func vRefLevel(l slog.Level) zapcore.Level {
	switch {
	case l >= slog.LevelError:
		return zapcore.ErrorLevel
	case l >= slog.LevelWarn:
		return zapcore.WarnLevel
	case l >= slog.LevelInfo:
		return zapcore.InfoLevel
	}
	return zapcore.DebugLevel
}

//verif: prop=C18 bounds="slog level any int (symbolic 64-bit), core threshold any int8: Enabled and Handle agree with the core on the mapped level; the mapping is monotone for any two levels and sends the four named slog levels to their namesakes"
func VC18Levels() {
	l := slog.Level(vrt.Int("level"))
	l2 := slog.Level(vrt.Int("level2"))
	thr := zapcore.Level(vrt.Int8("threshold"))
	core := vNewRecCore(thr)
	h := NewHandler(core)
	m := convertSlogLevel(l)
	vrt.Assert("maps-to-a-valid-zap-level", m >= zapcore.DebugLevel && m <= zapcore.ErrorLevel)
	if l <= l2 {
		vrt.Assert("monotone", m <= convertSlogLevel(l2))
	}
	vrt.Assert("named-levels-map-to-namesakes", convertSlogLevel(slog.LevelDebug) == zapcore.DebugLevel && convertSlogLevel(slog.LevelInfo) == zapcore.InfoLevel &&
		convertSlogLevel(slog.LevelWarn) == zapcore.WarnLevel && convertSlogLevel(slog.LevelError) == zapcore.ErrorLevel)
	vrt.Assert("mapping-as-documented", m == vRefLevel(l))
	want := thr.Enabled(vRefLevel(l))
	vrt.Assert("enabled-iff-core-enables-mapped-level", h.Enabled(context.Background(), l) == want)
	r := slog.NewRecord(time.Unix(1, 0), l, "msg", 0)
	vrt.Assert("handle-returns-nil", h.Handle(context.Background(), r) == nil)
	if want {
		vrt.Cover("handled")
		vrt.Assert("handled-at-mapped-level", len(*core.writes) == 1 && (*core.writes)[0].ent.Level == vRefLevel(l))
	} else {
		vrt.Cover("dropped")
		vrt.Assert("not-handled-when-disabled", len(*core.writes) == 0)
	}
	vrt.Observe("writes", len(*core.writes))
}

// vDynEnab18 is a level threshold that moves after handlers were built and derived (what an AtomicLevel does).
type vDynEnab18 struct{ thr *zapcore.Level }

func (d vDynEnab18) Enabled(l zapcore.Level) bool { return l >= *d.thr }

//verif: prop=C18 bounds="core threshold moved (any valid level to any valid level) after the handler was built and derived by 0..2 steps (WithGroup / WithAttrs); then a record at one of the four named slog levels through the real slog.Logger front end: Enabled and delivery agree with the threshold in force at the call"
func VC18LiveLevel() {
	thr := zapcore.Level(vrt.IntRange("level0", -1, 5))
	core := vNewRecCore(vDynEnab18{&thr})
	var h slog.Handler = NewHandler(core)
	for i, n := 0, vrt.Choice("steps", 3); i < n; i++ {
		if vrt.Choice(fmt.Sprintf("op%d", i), 2) == 0 {
			h = h.WithGroup("g")
		} else {
			h = h.WithAttrs([]slog.Attr{slog.Int("a", i)})
		}
	}
	thr = zapcore.Level(vrt.IntRange("level1", -1, 5))
	sl := []slog.Level{slog.LevelDebug, slog.LevelInfo, slog.LevelWarn, slog.LevelError}[vrt.Choice("record", 4)]
	want := vRefLevel(sl) >= thr
	vrt.Assert("enabled-iff-core-enables-mapped-level", h.Enabled(context.Background(), sl) == want)
	slog.New(h).Log(context.Background(), sl, "msg", "k", 1)
	vrt.Observe("writes", len(*core.writes))
	if want {
		vrt.Assert("handled-at-mapped-level", len(*core.writes) == 1 && (*core.writes)[0].ent.Level == vRefLevel(sl))
	} else {
		vrt.Assert("not-handled-when-disabled", len(*core.writes) == 0)
	}
	vrt.Cover("done")
}
