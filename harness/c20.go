//go:build verif

package zap

import (
	"io"
	"net/http"
	"net/url"
	"strings"

	vrt "go.uber.org/zap/internal/vrt"
	"go.uber.org/zap/zapcore"
)

// C20, HTTP part. Requests are built as values: method, content type, and either a pre-parsed form (what
// net/http's FormValue would find) or a body that is malformed JSON, a JSON object without "level", or
// {"level":"<text>"} with <text> handed to the real UnmarshalText. net/http's and encoding/json's own
// parsing are trusted (stubbed); everything AtomicLevel's handler does with the result runs from source.

// vJSONBody is a request body that can also describe itself to the engine's json.Decoder stub.
type vJSONBody struct {
	mode  int
	level string
	r     *strings.Reader
}

func (b *vJSONBody) VerifJSONBody() (int, []byte) { return b.mode, []byte(b.level) }
func (b *vJSONBody) Read(p []byte) (int, error) {
	if b.r == nil {
		switch b.mode {
		case 0:
			b.r = strings.NewReader("x{not json")
		case 1:
			b.r = strings.NewReader(`{"other":1}`)
		case 3:
			b.r = strings.NewReader(`{"level":null}`)
		case 4:
			b.r = strings.NewReader(`{"level":5}`)
		default:
			b.r = strings.NewReader(`{"level":"` + b.level + `"}`)
		}
	}
	return b.r.Read(p)
}
func (b *vJSONBody) Close() error { return nil }

type vRespWriter struct {
	hdr    http.Header
	status int
	body   []byte
}

func (w *vRespWriter) Header() http.Header { return w.hdr }
func (w *vRespWriter) Write(p []byte) (int, error) {
	if w.status == 0 {
		w.status = 200
	}
	w.body = append(w.body, p...)
	return len(p), nil
}
func (w *vRespWriter) WriteHeader(code int) {
	if w.status == 0 {
		w.status = code
	}
}

var vLevelNamesHTTP = []struct {
	name string
	lvl  zapcore.Level
}{
	{"debug", DebugLevel}, {"info", InfoLevel}, {"warn", WarnLevel}, {"warning", WarnLevel},
	{"error", ErrorLevel}, {"dpanic", DPanicLevel}, {"panic", PanicLevel}, {"fatal", FatalLevel},
}

// vRefLevelHTTP: which level, if any, text names (case-insensitively; the empty text reads as info).
func vRefLevelHTTP(text string) (zapcore.Level, bool) {
	if text == "" {
		return InfoLevel, true
	}
	for _, n := range vLevelNamesHTTP {
		if len(text) != len(n.name) {
			continue
		}
		eq := true
		for i := 0; i < len(text); i++ {
			c := text[i]
			if c >= 'A' && c <= 'Z' {
				c += 'a' - 'A'
			}
			eq = eq && c == n.name[i]
		}
		if eq {
			return n.lvl, true
		}
	}
	return 0, false
}

// vLevelText: a level text that is a valid name in some case, or a name with one byte replaced/added
// (near misses), or up to 2 free symbolic bytes; printable ASCII without quote and backslash so that the
// native replay can embed it in a JSON body.
func vLevelText(id string) string {
	var s string
	switch vrt.Choice(id+".shape", 4) {
	case 0:
		s = vLevelNamesHTTP[vrt.Choice(id+".name", len(vLevelNamesHTTP))].name
		b := []byte(s)
		if vrt.Choice(id+".upper", 2) == 1 {
			b[0] -= 'a' - 'A'
		}
		s = string(b)
	case 1: // a name with its last byte symbolic
		n := vLevelNamesHTTP[vrt.Choice(id+".name", len(vLevelNamesHTTP))].name
		s = n[:len(n)-1] + vrt.String(id+".last", 1)
	case 2: // a name followed by one symbolic byte
		s = vLevelNamesHTTP[vrt.Choice(id+".name", len(vLevelNamesHTTP))].name + vrt.String(id+".extra", 1)
	case 3:
		s = vrt.String(id+".free", vrt.Choice(id+".n", 3))
	}
	for i := 0; i < len(s); i++ {
		vrt.Assume(s[i] >= 0x20 && s[i] < 0x7f && s[i] != '"' && s[i] != '\\')
	}
	return s
}

func vHTTPRequests(n int) {
	lvl := NewAtomicLevelAt(zapcore.Level(vrt.IntRange("initial", -1, 5)))
	rec := vNewCore("rec", lvl)
	logger := New(rec)
	for i := 0; i < n; i++ {
		id := vName("r", i)
		before := lvl.Level()
		method := []string{"GET", "PUT", "POST", "DELETE", "PATCH", "HEAD", "get", "put", "OPTIONS"}[vrt.Choice(id+".method", 9)]
		req := &http.Request{Method: method, Header: http.Header{}}
		wantChange, wantLevel := false, before
		wantStatus := 200
		switch method {
		case "GET":
		case "PUT":
			switch vrt.Choice(id+".kind", 3) {
			case 0: // URL-encoded form
				req.Header.Set("Content-Type", "application/x-www-form-urlencoded")
				req.Form = url.Values{}
				if vrt.Choice(id+".hasLevel", 2) == 1 {
					text := vLevelText(id)
					req.Form["level"] = []string{text}
					if l, ok := vRefLevelHTTP(text); ok && text != "" {
						wantChange, wantLevel = true, l
					} else {
						wantStatus = 400
					}
				} else {
					wantStatus = 400
				}
			case 1: // JSON body (explicit content type or none: JSON is the default decoding)
				if vrt.Choice(id+".ct", 2) == 1 {
					req.Header.Set("Content-Type", "application/json")
				}
				mode := vrt.Choice(id+".body", 5) // 0 malformed, 1 no level, 2 level text, 3 level null, 4 level number
				body := &vJSONBody{mode: mode}
				if mode == 2 {
					body.level = vLevelText(id)
					if l, ok := vRefLevelHTTP(body.level); ok {
						wantChange, wantLevel = true, l
					} else {
						wantStatus = 400
					}
				} else {
					wantStatus = 400
				}
				req.Body = body
				// the length of a streamed (chunked) body is unknown to the server: -1; otherwise it is the byte count
				// (in sequences of requests these two vary for the last request only)
				req.ContentLength = 16
				if i == n-1 {
					req.ContentLength = []int64{-1, 16}[vrt.Choice(id+".length", 2)]
					// a level in the query string as well: with a non-form content type the body is what counts
					if vrt.Choice(id+".query", 2) == 1 {
						req.Form = url.Values{"level": []string{"debug"}}
					}
				}
			case 2: // another content type with a malformed body
				req.Header.Set("Content-Type", "text/plain")
				req.Body = &vJSONBody{mode: 0}
				wantStatus = 400
			}
		default:
			wantStatus = 405
		}
		if req.Body == nil {
			req.Body = io.NopCloser(strings.NewReader(""))
		}
		w := &vRespWriter{hdr: http.Header{}}
		lvl.ServeHTTP(w, req)
		after := lvl.Level()
		vrt.Observe(id+".status", w.status)
		vrt.Observe(id+".level", int8(after))
		if wantChange {
			vrt.Cover("level-set")
			vrt.Assert("put-naming-a-valid-level-sets-exactly-it", after == wantLevel)
			vrt.Assert("success-status", w.status == 200)
		} else {
			vrt.Assert("level-unchanged-unless-a-valid-put", after == before)
			vrt.Assert("status-class", w.status == wantStatus)
		}
		if w.status == 200 {
			vrt.Assert("response-reports-the-level-in-force", string(w.body) == `{"level":"`+after.String()+`"}`+"\n")
		} else {
			vrt.Assert("error-response-is-4xx", w.status >= 400 && w.status < 500)
		}
		// the shared level is what live loggers obey
		nb := len(rec.st.writes)
		logger.Info("probe")
		vrt.Assert("live-logger-obeys-the-level-in-force", (len(rec.st.writes) == nb+1) == (after <= InfoLevel))
	}
	vrt.Cover("done")
}

//verif: prop=C20 bounds="1 request against an AtomicLevel at any valid initial level shared with a live logger: method in {GET, PUT, POST, DELETE, PATCH, HEAD, OPTIONS, lower-case get/put}; PUT with a URL-encoded form (level absent or a text) or a JSON body (malformed, without level, {level: text}, {level: null} or {level: number}; with or without the JSON content type, of known or unknown (streamed) length, with or without a level in the query string as well) or another content type; text = a level name (either case of its first letter), a name with its last byte symbolic, a name plus one symbolic byte, or 0..2 symbolic bytes (printable ASCII). net/http form parsing and encoding/json tokenising are stubbed by contract"
func VC20HTTP1() { vHTTPRequests(1) }

//verif: prop=C20 tier=thorough bounds="sequences of 2 requests (as VC20HTTP1)"
func VC20HTTP2() { vHTTPRequests(2) }

//verif: prop=C20 bounds="AtomicLevel.UnmarshalText on a level at any valid prior value, text from {a level name in either case of its first letter, a name with its last byte symbolic, a name plus one symbolic byte, 0..2 symbolic bytes, the empty text}: accepted iff the text names a level (the empty text reads as info), then exactly that level and visible to a logger built from the AtomicLevel earlier; otherwise an error and the level unchanged; MarshalText/String give the level's name back"
func VC20AtomicText() {
	prior := zapcore.Level(vrt.IntRange("prior", -1, 5))
	al := NewAtomicLevelAt(prior)
	rec := vNewCore("rec", al)
	logger := New(rec)
	text := ""
	if vrt.Choice("empty", 2) == 0 {
		text = vLevelText("t")
	}
	err := al.UnmarshalText([]byte(text))
	want, ok := vRefLevelHTTP(text)
	vrt.Observe("err", err != nil)
	vrt.Observe("level", int8(al.Level()))
	if ok {
		vrt.Cover("accepted")
		vrt.Assert("valid-text-accepted-with-exactly-that-level", err == nil && al.Level() == want)
		mt, merr := al.MarshalText()
		vrt.Assert("marshal-text-names-the-level", merr == nil && string(mt) == want.String() && al.String() == want.String())
	} else {
		vrt.Cover("rejected")
		vrt.Assert("other-text-rejected-without-modifying-the-level", err != nil && al.Level() == prior)
	}
	nb := len(rec.st.writes)
	logger.Info("probe")
	vrt.Assert("loggers-built-earlier-see-the-level-in-force", (len(rec.st.writes) == nb+1) == (al.Level() <= InfoLevel))
}
