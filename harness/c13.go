//go:build verif

package zap

import (
	vrt "go.uber.org/zap/internal/vrt"
	"go.uber.org/zap/zapcore"
)

//verif: prop=C13 bounds="std-log bridge writer (loggerWriter) on payloads of 0..3 symbolic bytes (whitespace and newline classes arise from the solver): reports len(p) and nil, logs the trimmed text once"
func VC13LoggerWriter() {
	n := vrt.IntRange("len", 0, 3)
	p := vrt.Bytes("p", n)
	for _, c := range p {
		vrt.Assume(c < 0x80) // TrimSpace on non-ASCII space runes is outside the stub's contract
	}
	var msgs []string
	w := &loggerWriter{logFunc: func(msg string, _ ...Field) { msgs = append(msgs, msg) }}
	k, err := w.Write(p)
	vrt.Observe("n", k)
	vrt.Assert("reports-len-p-and-nil", k == n && err == nil)
	vrt.Assert("logged-once", len(msgs) == 1)
	_ = zapcore.InfoLevel
}
