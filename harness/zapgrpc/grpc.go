//go:build verif

package zapgrpc

import (
	"go.uber.org/zap"
	"go.uber.org/zap/internal/exit"
	vrt "go.uber.org/zap/internal/vrt"
	"go.uber.org/zap/zapcore"
)

type vGCore struct {
	thr    zapcore.Level
	writes *[]zapcore.Entry
	stub   *exit.StubbedExit
}

func (c vGCore) Enabled(l zapcore.Level) bool      { return l >= c.thr }
func (c vGCore) With([]zapcore.Field) zapcore.Core { return c }
func (c vGCore) Check(e zapcore.Entry, ce *zapcore.CheckedEntry) *zapcore.CheckedEntry {
	if c.Enabled(e.Level) {
		return ce.AddCore(e, c)
	}
	return ce
}
func (c vGCore) Write(e zapcore.Entry, _ []zapcore.Field) error {
	if c.stub != nil {
		vrt.Assert("written-before-control-is-lost", !c.stub.Exited)
	}
	*c.writes = append(*c.writes, e)
	return nil
}
func (c vGCore) Sync() error { return nil }

// Fatal* through the gRPC adapter always runs the fatal action, whatever the threshold.
//
//verif: prop=C06 bounds="zapgrpc Fatal/Fatalf/Fatalln with the core threshold any int8 (Fatal possibly disabled), with and without WithDebug; process exit observed through zap's exit stub"
func VC06Grpc() {
	stub := exit.Stub()
	defer stub.Unstub()
	var writes []zapcore.Entry
	thr := zapcore.Level(vrt.Int8("threshold"))
	var opts []Option
	if vrt.Choice("debug", 2) == 1 {
		opts = append(opts, WithDebug())
	}
	l := NewLogger(zap.New(vGCore{thr: thr, writes: &writes, stub: stub}), opts...)
	switch vrt.Choice("method", 3) {
	case 0:
		vrt.Tag("method=Fatal")
		l.Fatal("boom")
	case 1:
		vrt.Tag("method=Fatalf")
		l.Fatalf("%s", "boom")
	case 2:
		vrt.Tag("method=Fatalln")
		l.Fatalln("boom")
	}
	vrt.Observe("exited", stub.Exited)
	vrt.Observe("writes", len(writes))
	vrt.Assert("fatal-action-ran", stub.Exited && stub.Code == 1)
	if zapcore.FatalLevel >= thr {
		vrt.Assert("enabled-entry-written", len(writes) == 1 && writes[0].Message == "boom" && writes[0].Level == zapcore.FatalLevel)
	} else {
		vrt.Assert("disabled-entry-not-written", len(writes) == 0)
	}
}

// V and the *ln methods agree with the core's level set.
//
//verif: prop=C05 bounds="zapgrpc V(0..3) and Info/Warning/Error in plain, f and ln forms against a threshold that is any int8"
func VC05Grpc() {
	var writes []zapcore.Entry
	thr := zapcore.Level(vrt.Int8("threshold"))
	l := NewLogger(zap.New(vGCore{thr: thr, writes: &writes}))
	lv := vrt.Choice("v", 4)
	mapped := []zapcore.Level{zapcore.InfoLevel, zapcore.WarnLevel, zapcore.ErrorLevel, zapcore.FatalLevel}[lv]
	vrt.Observe("V", l.V(lv))
	vrt.Assert("V-consistent-with-enabled", l.V(lv) == (mapped >= thr))
	if lv == 3 {
		return
	}
	switch vrt.Choice("form", 3) {
	case 0:
		[]func(...interface{}){l.Info, l.Warning, l.Error}[lv]("m")
	case 1:
		[]func(string, ...interface{}){l.Infof, l.Warningf, l.Errorf}[lv]("%s", "m")
	case 2:
		[]func(...interface{}){l.Infoln, l.Warningln, l.Errorln}[lv]("m")
	}
	if mapped >= thr {
		vrt.Assert("enabled-entry-written", len(writes) == 1 && writes[0].Level == mapped && writes[0].Message == "m")
	} else {
		vrt.Assert("disabled-entry-not-written", len(writes) == 0)
	}
}

// vGSetCore enables an arbitrary set of the valid levels (bit i: level Debug+i); the set can change later.
type vGSetCore struct {
	set    *uint8
	writes *[]zapcore.Entry
}

func (c vGSetCore) Enabled(l zapcore.Level) bool {
	return l >= zapcore.DebugLevel && l <= zapcore.FatalLevel && *c.set&(1<<uint(l-zapcore.DebugLevel)) != 0
}
func (c vGSetCore) With([]zapcore.Field) zapcore.Core { return c }
func (c vGSetCore) Check(e zapcore.Entry, ce *zapcore.CheckedEntry) *zapcore.CheckedEntry {
	if c.Enabled(e.Level) {
		return ce.AddCore(e, c)
	}
	return ce
}
func (c vGSetCore) Write(e zapcore.Entry, _ []zapcore.Field) error {
	*c.writes = append(*c.writes, e)
	return nil
}
func (c vGSetCore) Sync() error { return nil }

// The adapter follows the live core: an arbitrary (also non-monotone) level set, and a level set or an
// AtomicLevel that changes after the adapter was built.
//
//verif: prop=C05 bounds="zapgrpc adapter over (a) a core enabling an arbitrary set of the valid levels (symbolic 7-bit mask) that is replaced by another arbitrary set after NewLogger, (b) a core behind an AtomicLevel moved from any valid level to any other after NewLogger; then V(0..2) and Info/Warning/Error in plain, f and ln forms and Print/Printf/Println: V and delivery agree with the set in force at the call"
func VC05GrpcLive() {
	var writes []zapcore.Entry
	var l *Logger
	var enabled func(zapcore.Level) bool
	if vrt.Choice("core", 2) == 0 {
		set := vrt.Uint8("set0") & 0x7f
		c := vGSetCore{set: &set, writes: &writes}
		l = NewLogger(zap.New(c))
		set = vrt.Uint8("set1") & 0x7f
		enabled = c.Enabled
	} else {
		al := zap.NewAtomicLevelAt(zapcore.Level(vrt.IntRange("level0", -1, 5)))
		thrCore := vGAtomicCore{al: al, writes: &writes}
		l = NewLogger(zap.New(thrCore))
		al.SetLevel(zapcore.Level(vrt.IntRange("level1", -1, 5)))
		enabled = al.Enabled
	}
	lv := vrt.Choice("v", 3)
	mapped := []zapcore.Level{zapcore.InfoLevel, zapcore.WarnLevel, zapcore.ErrorLevel}[lv]
	vrt.Observe("V", l.V(lv))
	vrt.Assert("V-consistent-with-enabled", l.V(lv) == enabled(mapped))
	form := vrt.Choice("form", 4)
	switch form {
	case 0:
		[]func(...interface{}){l.Info, l.Warning, l.Error}[lv]("m")
	case 1:
		[]func(string, ...interface{}){l.Infof, l.Warningf, l.Errorf}[lv]("%s", "m")
	case 2:
		[]func(...interface{}){l.Infoln, l.Warningln, l.Errorln}[lv]("m")
	case 3: // the Print family logs at Info
		mapped = zapcore.InfoLevel
		[]func(){func() { l.Print("m") }, func() { l.Printf("%s", "m") }, func() { l.Println("m") }}[lv]()
	}
	if enabled(mapped) {
		vrt.Assert("enabled-entry-written", len(writes) == 1 && writes[0].Level == mapped && writes[0].Message == "m")
	} else {
		vrt.Assert("disabled-entry-not-written", len(writes) == 0)
	}
	vrt.Cover("done")
}

type vGAtomicCore struct {
	al     zap.AtomicLevel
	writes *[]zapcore.Entry
}

func (c vGAtomicCore) Enabled(l zapcore.Level) bool      { return c.al.Enabled(l) }
func (c vGAtomicCore) With([]zapcore.Field) zapcore.Core { return c }
func (c vGAtomicCore) Check(e zapcore.Entry, ce *zapcore.CheckedEntry) *zapcore.CheckedEntry {
	if c.Enabled(e.Level) {
		return ce.AddCore(e, c)
	}
	return ce
}
func (c vGAtomicCore) Write(e zapcore.Entry, _ []zapcore.Field) error {
	*c.writes = append(*c.writes, e)
	return nil
}
func (c vGAtomicCore) Sync() error { return nil }
