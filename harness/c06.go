//go:build verif

package zap

import (
	"errors"
	"fmt"
	"time"

	"go.uber.org/zap/internal/exit"
	vrt "go.uber.org/zap/internal/vrt"
	"go.uber.org/zap/zapcore"
)

type vHook struct{ name string }

func (h vHook) OnWrite(*zapcore.CheckedEntry, []zapcore.Field) { vrt.Event("hook:" + h.name) }

// vTermCore asserts, at every write, that control has not been lost yet.
type vTermCore struct {
	*vCore
	stub *exit.StubbedExit
}

func (c vTermCore) With(fs []Field) zapcore.Core { return vTermCore{c.vCore.With(fs).(*vCore), c.stub} }
func (c vTermCore) Check(e zapcore.Entry, ce *zapcore.CheckedEntry) *zapcore.CheckedEntry {
	if c.Enabled(e.Level) {
		return ce.AddCore(e, c)
	}
	return ce
}
func (c vTermCore) Write(e zapcore.Entry, fs []Field) error {
	vrt.Assert("written-before-control-is-lost", !c.stub.Exited)
	return c.vCore.Write(e, fs)
}

type vFlushSink struct {
	stub   *exit.StubbedExit
	writes int
	synced bool
}

func (s *vFlushSink) Write(p []byte) (int, error) {
	vrt.Assert("sink-written-before-control-is-lost", !s.stub.Exited)
	s.writes++
	s.synced = false
	vrt.Event("sink.write")
	return len(p), nil
}
func (s *vFlushSink) Sync() error { s.synced = true; vrt.Event("sink.sync"); return nil }

// vTerminalCase: one front-end call at DPanic/Panic/Fatal against a chosen core and hook setting.
func vTerminalCase() {
	stub := exit.Stub()
	defer stub.Unstub()

	// ---- core
	var core zapcore.Core
	var rec *vCore
	var flush *vFlushSink
	var buffered *zapcore.BufferedWriteSyncer
	// where the options are installed: at construction, or later on an existing / derived / sugared logger
	site := vrt.Choice("site", 4)
	coreKind := 1
	if site == 0 {
		coreKind = vrt.Choice("core", 8)
	}
	thr := zapcore.Level(vrt.Int8("threshold")) // the level may be disabled
	switch coreKind {
	case 0:
		core = zapcore.NewNopCore()
	case 1:
		rec = vNewCore("rec", thr)
		core = vTermCore{rec, stub}
	case 2:
		rec = vNewCore("rec", vNewMask256("m"))
		core = vTermCore{rec, stub}
	case 3: // sampled out
		rec = vNewCore("rec", thr)
		core = zapcore.NewSamplerWithOptions(vTermCore{rec, stub}, time.Second, 0, 0)
	case 4: // tee of a recording core and a nop
		rec = vNewCore("rec", thr)
		core = zapcore.NewTee(zapcore.NewNopCore(), vTermCore{rec, stub})
	case 5: // IO core over a buffered syncer: the line must be flushed before control is lost
		flush = &vFlushSink{stub: stub}
		buffered = &zapcore.BufferedWriteSyncer{WS: flush, Size: 4096, FlushInterval: time.Hour, Clock: vNoTickClock{}}
		core = zapcore.NewCore(zapcore.NewJSONEncoder(zapcore.EncoderConfig{MessageKey: "m"}), buffered, thr)
	case 7: // a tee whose other branch fails to write: the terminal action still follows
		rec = vNewCore("rec", thr)
		bad := vNewCore("bad", thr)
		bad.werr = errors.New("sink failed")
		core = zapcore.NewTee(bad, vTermCore{rec, stub})
	case 6: // as 5, but the line is larger than the whole buffer (it bypasses the buffer on its way to the sink)
		flush = &vFlushSink{stub: stub}
		buffered = &zapcore.BufferedWriteSyncer{WS: flush, Size: 8, FlushInterval: time.Hour, Clock: vNoTickClock{}}
		core = zapcore.NewCore(zapcore.NewJSONEncoder(zapcore.EncoderConfig{MessageKey: "m"}), buffered, thr)
	}

	// ---- options
	var opts []Option
	dev := vrt.Choice("development", 2) == 1
	if dev {
		opts = append(opts, Development())
	}
	hookKind := vrt.Choice("hook", 5)
	switch hookKind {
	case 1:
		opts = append(opts, WithPanicHook(nil), WithFatalHook(nil))
	case 2:
		opts = append(opts, WithPanicHook(zapcore.WriteThenNoop), WithFatalHook(zapcore.WriteThenNoop))
	case 3:
		opts = append(opts, WithPanicHook(zapcore.WriteThenGoexit), WithFatalHook(zapcore.WriteThenGoexit))
	case 4:
		opts = append(opts, WithPanicHook(vHook{"panic"}), WithFatalHook(vHook{"fatal"}))
	}
	var log *Logger
	switch site {
	case 0:
		log = New(core, opts...)
	case 1:
		log = New(core).WithOptions(opts...)
	case 2:
		log = New(core).With(Int("ctx", 1)).Named("n").WithOptions(opts...)
	case 3:
		log = New(core).Sugar().WithOptions(opts...).Desugar()
	}
	sug := log.Sugar()

	// ---- front end
	lvl := []zapcore.Level{DPanicLevel, PanicLevel, FatalLevel}[vrt.Choice("level", 3)]
	front := vrt.Choice("front", 9)
	// the std-log bridge also gets blank messages (log.Println() and friends): what arrives is trimmed
	stdMsg, wantMsg := "boom", "boom"
	if front == 8 {
		switch vrt.Choice("stdmsg", 3) {
		case 1:
			stdMsg, wantMsg = "", ""
		case 2:
			stdMsg, wantMsg = " \t", ""
		}
	}
	var recovered interface{}
	returned := false
	call := func() {
		defer func() { recovered = recover() }()
		switch front {
		case 0:
			switch lvl {
			case DPanicLevel:
				log.DPanic("boom")
			case PanicLevel:
				log.Panic("boom")
			case FatalLevel:
				log.Fatal("boom")
			}
		case 1:
			log.Log(lvl, "boom")
		case 2:
			if ce := log.Check(lvl, "boom"); ce != nil {
				ce.Write()
			} else {
				vrt.Event("check-returned-nil")
			}
		case 3:
			switch lvl {
			case DPanicLevel:
				sug.DPanic("boom")
			case PanicLevel:
				sug.Panic("boom")
			case FatalLevel:
				sug.Fatal("boom")
			}
		case 4:
			switch lvl {
			case DPanicLevel:
				sug.DPanicf("%s", "boom")
			case PanicLevel:
				sug.Panicf("%s", "boom")
			case FatalLevel:
				sug.Fatalf("%s", "boom")
			}
		case 5:
			switch lvl {
			case DPanicLevel:
				sug.DPanicw("boom", "k", 1)
			case PanicLevel:
				sug.Panicw("boom", "k", 1)
			case FatalLevel:
				sug.Fatalw("boom", "k", 1)
			}
		case 6:
			switch lvl {
			case DPanicLevel:
				sug.DPanicln("boom")
			case PanicLevel:
				sug.Panicln("boom")
			case FatalLevel:
				sug.Fatalln("boom")
			}
		case 7:
			sug.Logw(lvl, "boom")
		case 8: // std-log bridge
			std, err := NewStdLogAt(log, lvl)
			if err != nil {
				vrt.Fail("NewStdLogAt-rejects-level")
				return
			}
			std.Print(stdMsg)
		}
		returned = true
	}
	goexited := vRunMaybeGoexit(call)

	// ---- what must have happened
	terminal := lvl == PanicLevel || lvl == FatalLevel || (lvl == DPanicLevel && dev)
	wantAction := "none"
	if terminal {
		fatal := lvl == FatalLevel
		switch hookKind {
		case 0, 1, 2: // unset, nil, no-op: the default action
			if fatal {
				wantAction = "exit"
			} else {
				wantAction = "panic"
			}
		case 3:
			wantAction = "goexit"
		case 4:
			wantAction = "hook"
		}
	}
	vrt.Tag(fmt.Sprintf("front=%d", front))
	if recovered != nil && fmt.Sprint(recovered) != wantMsg {
		vrt.Tag("recovered=" + fmt.Sprint(recovered))
	}
	events := vrt.EventsString()
	vrt.Observe("events", events)
	vrt.Observe("returned", returned)
	vrt.Observe("exited", stub.Exited)
	switch wantAction {
	case "panic":
		vrt.Assert("panic-action-ran", recovered != nil && fmt.Sprint(recovered) == wantMsg)
	case "exit":
		vrt.Assert("fatal-action-ran", stub.Exited && stub.Code == 1)
		vrt.Assert("no-panic-instead", recovered == nil)
	case "goexit":
		vrt.Assert("goexit-action-ran", goexited)
	case "hook":
		want := "hook:panic"
		if lvl == FatalLevel {
			want = "hook:fatal"
		}
		vrt.Assert("custom-hook-ran-once", vCount(events, want) == 1)
	case "none":
		vrt.Assert("no-terminal-action", recovered == nil && !stub.Exited && !goexited && returned)
	}
	if wantAction != "exit" {
		vrt.Assert("no-spurious-exit", !stub.Exited)
	}
	// the enabled entry reached its core (and the IO core's sink was flushed) before the action
	if rec != nil && coreKind != 3 {
		enabled := rec.enab.Enabled(lvl)
		if enabled {
			vrt.Assert("enabled-entry-written", len(rec.st.writes) == 1)
		} else {
			vrt.Assert("disabled-entry-not-written", len(rec.st.writes) == 0)
		}
	}
	if coreKind == 3 {
		vrt.Assert("sampled-out-not-written", len(rec.st.writes) == 0)
	}
	if flush != nil {
		if thr.Enabled(lvl) {
			vrt.Assert("buffered-line-flushed-before-control-is-lost", flush.writes == 1 && flush.synced)
		} else {
			vrt.Assert("disabled-entry-not-written", flush.writes == 0)
		}
		buffered.Stop()
	}
	vrt.Cover("done")
}

type vNoTickClock struct{}

func (vNoTickClock) Now() time.Time                        { return time.Unix(0, 0) }
func (vNoTickClock) NewTicker(time.Duration) *time.Ticker { return &time.Ticker{C: make(chan time.Time)} }

// vRunMaybeGoexit runs f on its own goroutine and reports whether it ended through runtime.Goexit.
func vRunMaybeGoexit(f func()) (goexited bool) {
	done := make(chan bool, 1)
	go func() {
		normal := false
		defer func() { done <- !normal }()
		f()
		normal = true
	}()
	return <-done
}

func vCount(s, sub string) int {
	n := 0
	for i := 0; i+len(sub) <= len(s); i++ {
		if s[i:i+len(sub)] == sub {
			n++
		}
	}
	return n
}

//verif: prop=C06 bounds="one call at DPanic/Panic/Fatal through 9 front ends (Logger methods, Log, Check+Write, Sugared plain/f/w/ln/Logw, std-log bridge, that one also with an empty and a blank message) x 8 cores (nop, threshold, arbitrary level set, sampler dropping everything, tee, tee with a branch whose write fails, JSON IO core over a BufferedWriteSyncer whose buffer is larger / smaller than the line) x development on/off x hooks {unset, nil, no-op, Goexit, custom} installed at construction (all cores) or later through WithOptions on an existing, a derived or a sugared logger (threshold core); threshold any int8; process exit observed through zap's own exit stub"
func VC06Terminal() { vTerminalCase() }
