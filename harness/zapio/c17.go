//go:build verif

package zapio

import (
	"fmt"

	"go.uber.org/zap"
	vrt "go.uber.org/zap/internal/vrt"
	"go.uber.org/zap/zapcore"
)

// vMsgCore records the message of every entry written at an enabled level.
type vMsgCore struct {
	min  zapcore.Level
	msgs *[]string
	lvls *[]zapcore.Level
}

func (c vMsgCore) Enabled(l zapcore.Level) bool     { return l >= c.min }
func (c vMsgCore) With([]zapcore.Field) zapcore.Core { return c }
func (c vMsgCore) Check(e zapcore.Entry, ce *zapcore.CheckedEntry) *zapcore.CheckedEntry {
	if c.Enabled(e.Level) {
		return ce.AddCore(e, c)
	}
	return ce
}
func (c vMsgCore) Write(e zapcore.Entry, _ []zapcore.Field) error {
	*c.msgs = append(*c.msgs, e.Message)
	*c.lvls = append(*c.lvls, e.Level)
	return nil
}
func (c vMsgCore) Sync() error { return nil }

// vStream drives a Writer with a stream of n symbolic bytes cut into successive writes by a cut
// mask, with Sync calls placed by a second mask, then Close. Reference: the newline-delimited lines
// of each Sync-delimited segment; only an empty final piece is dropped.
func vStream(n int) {
	stream := vrt.Bytes("s", n)
	var msgs []string
	var lvls []zapcore.Level
	enabled := vrt.Choice("enabled", 2) == 1
	min := zapcore.InfoLevel
	if !enabled {
		min = zapcore.ErrorLevel
	}
	w := &Writer{Log: zap.New(vMsgCore{min: min, msgs: &msgs, lvls: &lvls}), Level: zapcore.InfoLevel}

	// reference
	var want []string
	var cur []byte
	flushRef := func() {
		if len(cur) > 0 {
			want = append(want, string(cur))
		}
		cur = nil
	}

	start := 0
	// like io.Copy, the caller hands over the same scratch buffer on every Write and refills it afterwards:
	// the Writer may neither keep the slice nor change it
	scratch := make([]byte, n+2)
	emit := func(end int) {
		chunk := stream[start:end]
		p := scratch[:len(chunk)]
		copy(p, chunk)
		k, err := w.Write(p)
		vrt.Assert("write-reports-all", k == len(p) && err == nil)
		vrt.Assert("callers-slice-not-modified", string(p) == string(chunk))
		for i := range scratch {
			scratch[i] = '#' // the caller reuses its buffer
		}
		for _, b := range chunk {
			if b == '\n' {
				want = append(want, string(cur))
				cur = nil
			} else {
				cur = append(cur, b)
			}
		}
		start = end
	}
	for i := 0; i <= n; i++ {
		// position i: between byte i-1 and byte i
		act := 0
		if i > 0 || true {
			act = vrt.Choice(fmt.Sprintf("act%d", i), 4) // 0 nothing, 1 cut, 2 cut+empty write, 3 cut+sync
		}
		if act == 0 && i < n {
			continue
		}
		emit(i)
		switch act {
		case 2:
			k, err := w.Write(nil)
			vrt.Assert("empty-write", k == 0 && err == nil)
		case 3:
			vrt.Assert("sync-nil", w.Sync() == nil)
			flushRef()
		}
	}
	vrt.Assert("close-nil", w.Close() == nil)
	flushRef()

	if !enabled {
		vrt.Cover("disabled")
		vrt.Assert("disabled:nothing-logged", len(msgs) == 0)
		return
	}
	vrt.Cover("enabled")
	vrt.Assert("line-count", len(msgs) == len(want))
	if len(msgs) == len(want) {
		for i := range want {
			vrt.Assert("line-content", msgs[i] == want[i])
			vrt.Assert("line-level", lvls[i] == zapcore.InfoLevel)
		}
	}
	vrt.Observe("msgs", msgs)
}

//verif: prop=C17,C13 bounds="stream of 2 symbolic bytes; every partition into writes (incl. empty writes) and Sync placement; level enabled or disabled"
func VC17Stream2() { vStream(2) }

//verif: prop=C17,C13 bounds="stream of 3 symbolic bytes (as VC17Stream2)"
func VC17Stream3() { vStream(3) }

//verif: prop=C17 tier=thorough bounds="stream of 4 symbolic bytes"
func VC17Stream4() { vStream(4) }
