//go:build verif

package zapio

import (
	"fmt"

	"go.uber.org/zap"
	vrt "go.uber.org/zap/internal/vrt"
	"go.uber.org/zap/zapcore"
)

// vMsgCore records the message of every entry written at an enabled level.
type vMsgCore struct {
	min  zapcore.Level
	msgs *[]string
	lvls *[]zapcore.Level
}

func (c vMsgCore) Enabled(l zapcore.Level) bool     { return l >= c.min }
func (c vMsgCore) With([]zapcore.Field) zapcore.Core { return c }
func (c vMsgCore) Check(e zapcore.Entry, ce *zapcore.CheckedEntry) *zapcore.CheckedEntry {
	if c.Enabled(e.Level) {
		return ce.AddCore(e, c)
	}
	return ce
}
func (c vMsgCore) Write(e zapcore.Entry, _ []zapcore.Field) error {
	*c.msgs = append(*c.msgs, e.Message)
	*c.lvls = append(*c.lvls, e.Level)
	return nil
}
func (c vMsgCore) Sync() error { return nil }

// vStream drives a Writer with a stream of n symbolic bytes cut into successive writes by a cut
// mask, with Sync calls placed by a second mask, then Close. Reference: the newline-delimited lines
// of each Sync-delimited segment; only an empty final piece is dropped.
func vStream(n int) {
	stream := vrt.Bytes("s", n)
	var msgs []string
	var lvls []zapcore.Level
	enabled := vrt.Choice("enabled", 2) == 1
	min := zapcore.InfoLevel
	if !enabled {
		min = zapcore.ErrorLevel
	}
	w := &Writer{Log: zap.New(vMsgCore{min: min, msgs: &msgs, lvls: &lvls}), Level: zapcore.InfoLevel}

	// reference
	var want []string
	var cur []byte
	flushRef := func() {
		if len(cur) > 0 {
			want = append(want, string(cur))
		}
		cur = nil
	}

	start := 0
	// like io.Copy, the caller hands over the same scratch buffer on every Write and refills it afterwards:
	// the Writer may neither keep the slice nor change it
	scratch := make([]byte, n+2)
	emit := func(end int) {
		chunk := stream[start:end]
		p := scratch[:len(chunk)]
		copy(p, chunk)
		k, err := w.Write(p)
		vrt.Assert("write-reports-all", k == len(p) && err == nil)
		vrt.Assert("callers-slice-not-modified", string(p) == string(chunk))
		for i := range scratch {
			scratch[i] = '#' // the caller reuses its buffer
		}
		for _, b := range chunk {
			if b == '\n' {
				want = append(want, string(cur))
				cur = nil
			} else {
				cur = append(cur, b)
			}
		}
		start = end
	}
	for i := 0; i <= n; i++ {
		// position i: between byte i-1 and byte i
		act := 0
		if i > 0 || true {
			act = vrt.Choice(fmt.Sprintf("act%d", i), 4) // 0 nothing, 1 cut, 2 cut+empty write, 3 cut+sync
		}
		if act == 0 && i < n {
			continue
		}
		emit(i)
		switch act {
		case 2:
			k, err := w.Write(nil)
			vrt.Assert("empty-write", k == 0 && err == nil)
		case 3:
			vrt.Assert("sync-nil", w.Sync() == nil)
			flushRef()
		}
	}
	vrt.Assert("close-nil", w.Close() == nil)
	flushRef()

	if !enabled {
		vrt.Cover("disabled")
		vrt.Assert("disabled:nothing-logged", len(msgs) == 0)
		return
	}
	vrt.Cover("enabled")
	vrt.Assert("line-count", len(msgs) == len(want))
	if len(msgs) == len(want) {
		for i := range want {
			vrt.Assert("line-content", msgs[i] == want[i])
			vrt.Assert("line-level", lvls[i] == zapcore.InfoLevel)
		}
	}
	vrt.Observe("msgs", msgs)
}

//verif: prop=C17,C13 bounds="stream of 2 symbolic bytes; every partition into writes (incl. empty writes) and Sync placement; level enabled or disabled"
func VC17Stream2() { vStream(2) }

//verif: prop=C17,C13 bounds="stream of 3 symbolic bytes (as VC17Stream2)"
func VC17Stream3() { vStream(3) }

//verif: prop=C17 tier=thorough bounds="stream of 4 symbolic bytes"
func VC17Stream4() { vStream(4) }

// Very long lines: sizes around the buffer sizes the standard library uses (4 KiB bufio default, 32 KiB io.Copy
// chunks, the 64 KiB bufio.MaxScanTokenSize) and beyond. The content is concrete except for one symbolic
// byte that may or may not be a newline; the lengths are what is explored.
//
//verif: prop=C17 bounds="one line of 2..4 chunks of {4096, 32768, 65536} bytes each (the same scratch buffer refilled, as io.Copy does), one symbolic byte in the middle chunk (a newline there splits the line), ended by a newline in the last chunk, by Sync or by Close: the messages are exactly the newline-delimited pieces, none cut anywhere else, whatever their length"
func VC17LongLines() {
	vrt.Budget(40000000) // up to 256 KiB are filled, written and compared byte by byte
	var msgs []string
	var lvls []zapcore.Level
	w := &Writer{Log: zap.New(vMsgCore{min: zapcore.InfoLevel, msgs: &msgs, lvls: &lvls}), Level: zapcore.InfoLevel}
	size := []int{4096, 32768, 65536}[vrt.Choice("chunk", 3)]
	chunks := vrt.IntRange("chunks", 2, 4)
	end := vrt.Choice("end", 3) // 0 newline, 1 Sync, 2 Close
	mid := vrt.Byte("mid")
	scratch := make([]byte, size)
	var want []string
	var cur []byte
	for c := 0; c < chunks; c++ {
		for i := range scratch {
			scratch[i] = byte('a' + c)
		}
		if c == 1 {
			scratch[size/2] = mid
		}
		n := size
		if c == chunks-1 && end == 0 {
			scratch[size-1] = '\n'
		}
		k, err := w.Write(scratch[:n])
		vrt.Assert("write-accepts-all", k == n && err == nil)
		for _, b := range scratch[:n] {
			if b == '\n' {
				want = append(want, string(cur))
				cur = nil
			} else {
				cur = append(cur, b)
			}
		}
	}
	switch end {
	case 1:
		vrt.Assert("sync-nil", w.Sync() == nil)
	case 2:
		vrt.Assert("close-nil", w.Close() == nil)
	}
	if end != 0 && len(cur) > 0 {
		want = append(want, string(cur))
	}
	vrt.Observe("messages", len(msgs))
	vrt.Assert("one-message-per-line", len(msgs) == len(want))
	if len(msgs) == len(want) {
		for i := range want {
			vrt.Assert("message-is-the-whole-line", msgs[i] == want[i])
		}
	}
	vrt.Cover("done")
}
