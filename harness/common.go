//go:build verif

package zap

import (
	"fmt"
	"time"

	vrt "go.uber.org/zap/internal/vrt"
	"go.uber.org/zap/zapcore"
)

func vName(p string, i int) string { return fmt.Sprintf("%s%d", p, i) }

// vCall is one encoder call observed by the recorder.
type vCall struct {
	method string
	key    string
	val    interface{}
	elems  []vCall // AddArray / AppendArray
	fields []vCall // AddObject / AppendObject / namespace contents
}

// vRecEnc records every ObjectEncoder / ArrayEncoder call with its exact value.
type vRecEnc struct {
	calls []vCall
}

func (r *vRecEnc) add(m, k string, v interface{}) { r.calls = append(r.calls, vCall{method: m, key: k, val: v}) }

func (r *vRecEnc) single(method, key string) (interface{}, bool) {
	if len(r.calls) != 1 || r.calls[0].method != method || r.calls[0].key != key {
		return nil, false
	}
	return r.calls[0].val, true
}

func (r *vRecEnc) array(key string) ([]vCall, bool) {
	if len(r.calls) != 1 || r.calls[0].method != "AddArray" || r.calls[0].key != key {
		return nil, false
	}
	return r.calls[0].elems, true
}

func (r *vRecEnc) AddArray(k string, m zapcore.ArrayMarshaler) error {
	sub := &vRecEnc{}
	err := m.MarshalLogArray(sub)
	r.calls = append(r.calls, vCall{method: "AddArray", key: k, elems: sub.calls})
	return err
}
func (r *vRecEnc) AddObject(k string, m zapcore.ObjectMarshaler) error {
	sub := &vRecEnc{}
	err := m.MarshalLogObject(sub)
	r.calls = append(r.calls, vCall{method: "AddObject", key: k, fields: sub.calls})
	return err
}
func (r *vRecEnc) AddBinary(k string, v []byte)          { r.add("AddBinary", k, v) }
func (r *vRecEnc) AddByteString(k string, v []byte)      { r.add("AddByteString", k, v) }
func (r *vRecEnc) AddBool(k string, v bool)              { r.add("AddBool", k, v) }
func (r *vRecEnc) AddComplex128(k string, v complex128)  { r.add("AddComplex128", k, v) }
func (r *vRecEnc) AddComplex64(k string, v complex64)    { r.add("AddComplex64", k, v) }
func (r *vRecEnc) AddDuration(k string, v time.Duration) { r.add("AddDuration", k, v) }
func (r *vRecEnc) AddFloat64(k string, v float64)        { r.add("AddFloat64", k, v) }
func (r *vRecEnc) AddFloat32(k string, v float32)        { r.add("AddFloat32", k, v) }
func (r *vRecEnc) AddInt(k string, v int)                { r.add("AddInt", k, v) }
func (r *vRecEnc) AddInt64(k string, v int64)            { r.add("AddInt64", k, v) }
func (r *vRecEnc) AddInt32(k string, v int32)            { r.add("AddInt32", k, v) }
func (r *vRecEnc) AddInt16(k string, v int16)            { r.add("AddInt16", k, v) }
func (r *vRecEnc) AddInt8(k string, v int8)              { r.add("AddInt8", k, v) }
func (r *vRecEnc) AddString(k, v string)                 { r.add("AddString", k, v) }
func (r *vRecEnc) AddTime(k string, v time.Time)         { r.add("AddTime", k, v) }
func (r *vRecEnc) AddUint(k string, v uint)              { r.add("AddUint", k, v) }
func (r *vRecEnc) AddUint64(k string, v uint64)          { r.add("AddUint64", k, v) }
func (r *vRecEnc) AddUint32(k string, v uint32)          { r.add("AddUint32", k, v) }
func (r *vRecEnc) AddUint16(k string, v uint16)          { r.add("AddUint16", k, v) }
func (r *vRecEnc) AddUint8(k string, v uint8)            { r.add("AddUint8", k, v) }
func (r *vRecEnc) AddUintptr(k string, v uintptr)        { r.add("AddUintptr", k, v) }
func (r *vRecEnc) AddReflected(k string, v interface{}) error {
	r.add("AddReflected", k, v)
	return nil
}
func (r *vRecEnc) OpenNamespace(k string) { r.add("OpenNamespace", k, nil) }

func (r *vRecEnc) AppendArray(m zapcore.ArrayMarshaler) error {
	sub := &vRecEnc{}
	err := m.MarshalLogArray(sub)
	r.calls = append(r.calls, vCall{method: "AppendArray", elems: sub.calls})
	return err
}
func (r *vRecEnc) AppendObject(m zapcore.ObjectMarshaler) error {
	sub := &vRecEnc{}
	err := m.MarshalLogObject(sub)
	r.calls = append(r.calls, vCall{method: "AppendObject", fields: sub.calls})
	return err
}
func (r *vRecEnc) AppendReflected(v interface{}) error { r.add("AppendReflected", "", v); return nil }
func (r *vRecEnc) AppendBool(v bool)                   { r.add("AppendBool", "", v) }
func (r *vRecEnc) AppendByteString(v []byte)           { r.add("AppendByteString", "", v) }
func (r *vRecEnc) AppendComplex128(v complex128)       { r.add("AppendComplex128", "", v) }
func (r *vRecEnc) AppendComplex64(v complex64)         { r.add("AppendComplex64", "", v) }
func (r *vRecEnc) AppendDuration(v time.Duration)      { r.add("AppendDuration", "", v) }
func (r *vRecEnc) AppendFloat64(v float64)             { r.add("AppendFloat64", "", v) }
func (r *vRecEnc) AppendFloat32(v float32)             { r.add("AppendFloat32", "", v) }
func (r *vRecEnc) AppendInt(v int)                     { r.add("AppendInt", "", v) }
func (r *vRecEnc) AppendInt64(v int64)                 { r.add("AppendInt64", "", v) }
func (r *vRecEnc) AppendInt32(v int32)                 { r.add("AppendInt32", "", v) }
func (r *vRecEnc) AppendInt16(v int16)                 { r.add("AppendInt16", "", v) }
func (r *vRecEnc) AppendInt8(v int8)                   { r.add("AppendInt8", "", v) }
func (r *vRecEnc) AppendString(v string)               { r.add("AppendString", "", v) }
func (r *vRecEnc) AppendTime(v time.Time)              { r.add("AppendTime", "", v) }
func (r *vRecEnc) AppendUint(v uint)                   { r.add("AppendUint", "", v) }
func (r *vRecEnc) AppendUint64(v uint64)               { r.add("AppendUint64", "", v) }
func (r *vRecEnc) AppendUint32(v uint32)               { r.add("AppendUint32", "", v) }
func (r *vRecEnc) AppendUint16(v uint16)               { r.add("AppendUint16", "", v) }
func (r *vRecEnc) AppendUint8(v uint8)                 { r.add("AppendUint8", "", v) }
func (r *vRecEnc) AppendUintptr(v uintptr)             { r.add("AppendUintptr", "", v) }

// vCore is a recording core for the root package: arbitrary level set, records entries and fields.
type vCore struct {
	name    string
	enab    zapcore.LevelEnabler
	context []Field
	st      *vCoreState
	werr    error
}

type vCoreState struct {
	checks int
	writes []vWrite
	syncs  int
}

type vWrite struct {
	ent    zapcore.Entry
	fields []Field
	core   string
}

func vNewCore(name string, enab zapcore.LevelEnabler) *vCore {
	return &vCore{name: name, enab: enab, st: &vCoreState{}}
}

func (c *vCore) Enabled(l zapcore.Level) bool { return c.enab.Enabled(l) }
func (c *vCore) With(fs []Field) zapcore.Core {
	n := *c
	n.context = append(append([]Field(nil), c.context...), fs...)
	return &n
}
func (c *vCore) Check(e zapcore.Entry, ce *zapcore.CheckedEntry) *zapcore.CheckedEntry {
	c.st.checks++
	if c.Enabled(e.Level) {
		return ce.AddCore(e, c)
	}
	return ce
}
func (c *vCore) Write(e zapcore.Entry, fs []Field) error {
	all := append(append([]Field(nil), c.context...), fs...)
	c.st.writes = append(c.st.writes, vWrite{e, all, c.name})
	vrt.Event("write:" + c.name)
	return c.werr
}
func (c *vCore) Sync() error {
	c.st.syncs++
	vrt.Event("sync:" + c.name)
	return nil
}

// vMask256 is an arbitrary set of levels (one bit per int8 value).
type vMask256 [4]uint64

func vNewMask256(name string) vMask256 {
	var m vMask256
	for i := range m {
		m[i] = vrt.Uint64(fmt.Sprintf("%s.mask%d", name, i))
	}
	return m
}

func (m vMask256) Enabled(l zapcore.Level) bool {
	u := uint8(l)
	w := m[0]
	switch u >> 6 {
	case 1:
		w = m[1]
	case 2:
		w = m[2]
	case 3:
		w = m[3]
	}
	return (w>>(u&63))&1 == 1
}
