//go:build verif

package zap

import (
	"errors"
	"strings"
	"fmt"
	"log"
	"net/url"
	"os"

	vrt "go.uber.org/zap/internal/vrt"
	"go.uber.org/zap/zapcore"
)

// ---------------------------------------------------------------- environment of Open

// vSchemeSink is what the harness' registered sink factory hands out.
type vSchemeSink struct {
	name   string
	data   []byte
	writes int
	syncs  int
	closes int
	werr   error
}

func (s *vSchemeSink) Write(p []byte) (int, error) {
	s.writes++
	if s.werr != nil {
		return 0, s.werr
	}
	s.data = append(s.data, p...)
	return len(p), nil
}
func (s *vSchemeSink) Sync() error  { s.syncs++; return nil }
func (s *vSchemeSink) Close() error { s.closes++; return nil }

// vOpenEnv replaces the package's sink registry by a fresh one whose file opener and
// custom-scheme factory succeed or fail as the harness decides, and records every handle.
type vOpenEnv struct {
	files   map[string][]*os.File // opened handles by path
	opened  []*os.File
	sinks   []*vSchemeSink
	fail    map[string]bool // paths/hosts that fail to open
	failW   map[string]bool // files whose writes fail
	asked   []string        // every path the file opener was asked for
	refused []string        // paths that belong to destinations the URL rules refuse
	std     int             // destinations that are the process's stdout/stderr
	saved   *sinkRegistry
}

func vNewOpenEnv() *vOpenEnv {
	e := &vOpenEnv{files: map[string][]*os.File{}, fail: map[string]bool{}, failW: map[string]bool{}, saved: _sinkRegistry}
	sr := newSinkRegistry()
	sr.openFile = func(path string, flag int, perm os.FileMode) (*os.File, error) {
		e.asked = append(e.asked, path)
		if e.fail[path] {
			return nil, errors.New("open " + path + ": permission denied")
		}
		f := vrt.NewFile(path, e.failW[path])
		e.files[path] = append(e.files[path], f)
		e.opened = append(e.opened, f)
		return f, nil
	}
	if err := sr.RegisterSink("VS", func(u *url.URL) (Sink, error) {
		if e.fail[u.Host] {
			return nil, errors.New("vs: cannot open " + u.Host)
		}
		s := &vSchemeSink{name: u.Host}
		e.sinks = append(e.sinks, s)
		return s, nil
	}); err != nil {
		vrt.Fail("registering-a-fresh-valid-scheme-failed")
	}
	_sinkRegistry = sr
	return e
}

func (e *vOpenEnv) restore() { _sinkRegistry = e.saved; vrt.RemoveFiles() }

// allClosed: every handle opened so far has been closed (exactly once under the engine, where Close calls are counted).
func (e *vOpenEnv) allClosed() bool {
	ok := true
	for _, f := range e.opened {
		ok = ok && vrt.FileCloses(f) == 1
	}
	for _, s := range e.sinks {
		ok = ok && s.closes == 1
	}
	return ok
}

func (e *vOpenEnv) noneClosed() bool {
	ok := true
	for _, f := range e.opened {
		ok = ok && vrt.FileCloses(f) == 0
	}
	for _, s := range e.sinks {
		ok = ok && s.closes == 0
	}
	return ok
}

// vPathMenu builds destination i: its spelling, and whether opening it fails.
// kinds: absolute path, file URL, file URL with localhost and upper-case scheme, custom scheme (registered
// in upper case, used in lower or mixed case), relative path.
func (e *vOpenEnv) vPath(id string, kinds ...int) (spelling string, fails bool) {
	var kind int
	if len(kinds) > 0 {
		kind = kinds[vrt.Choice(id+".kind", len(kinds))]
	} else {
		kind = vrt.Choice(id+".kind", 7)
	}
	fails = vrt.Bool(id + ".fails")
	var key string
	switch kind {
	case 0:
		key = "/abs/" + id
		spelling = key
	case 1:
		key = "/url/" + id
		spelling = "file://" + key
	case 2:
		key = "/lh/" + id
		spelling = "FILE://localhost" + key
	case 3:
		key = "host-" + id
		spelling = []string{"vs://", "Vs://"}[vrt.Choice(id+".case", 2)] + key
	case 4:
		key = "rel-" + id
		spelling = key
	case 6: // the special names: the process's own stdout/stderr, which zap must never close
		spelling = []string{"stdout", "stderr"}[vrt.Choice(id+".std", 2)]
		e.std++
		return spelling, false
	case 5: // a destination the file-URL rules refuse, whatever the opener would do: nothing may be opened for it
		bad := []string{"rel-%s?rotate=daily", "rel-%s#frag", "stdout?sync=1", "file:///p/%s?x=1", "file://user@localhost/p/%s", "file://localhost:80/p/%s", "file://example.com/p/%s", "file:///p/%s#f"}
		b := bad[vrt.Choice(id+".bad", len(bad))]
		spelling = strings.Replace(b, "%s", id, 1)
		e.refused = append(e.refused, "rel-"+id, "/p/"+id, "stdout")
		return spelling, true
	}
	if fails {
		e.fail[key] = true
	}
	return spelling, fails
}

func vOpenN(maxP int) {
	e := vNewOpenEnv()
	defer e.restore()
	p := vrt.IntRange("p", 0, maxP)
	var paths []string
	anyFail := false
	for i := 0; i < p; i++ {
		s, f := e.vPath(vName("d", i))
		paths = append(paths, s)
		anyFail = anyFail || f
	}
	ws, closeAll, err := Open(paths...)
	vrt.Observe("open-failed", err != nil)
	vrt.Observe("handles", len(e.opened)+len(e.sinks))
	if anyFail {
		vrt.Cover("open-fails")
		vrt.Assert("error-reported-when-any-destination-fails", err != nil && ws == nil && closeAll == nil)
		vrt.Assert("failure-closes-every-opened-sink", e.allClosed())
		for _, a := range e.asked {
			for _, r := range e.refused {
				vrt.Assert("nothing-opened-for-a-refused-url", a != r)
			}
		}
		return
	}
	vrt.Cover("open-succeeds")
	if err != nil || ws == nil || closeAll == nil {
		vrt.Fail("open-succeeds-when-every-destination-opens")
		return
	}
	vrt.Assert("every-destination-opened", len(e.opened)+len(e.sinks)+e.std == p)
	vrt.Assert("success-closes-nothing", e.noneClosed())
	payload := vrt.Bytes("w", 2)
	if e.std > 0 {
		payload = []byte("ok") // goes to the real stdout/stderr when replayed natively
	}
	n, werr := ws.Write(payload)
	vrt.Assert("write-reported", n == 2 && werr == nil)
	got := true
	for _, f := range e.opened {
		got = got && vrt.FileData(f) == string(payload)
	}
	for _, s := range e.sinks {
		got = got && string(s.data) == string(payload) && s.writes == 1
	}
	vrt.Assert("every-destination-receives-every-write", got)
	// Syncing the process's real stdout/stderr succeeds or not depending on what they are attached to (a
	// pipe reports EINVAL): its result is the environment's, not zap's, so it is asserted only without them
	if serr := ws.Sync(); e.std == 0 {
		vrt.Assert("sync-nil", serr == nil)
	}
	if vrt.Symbolic() {
		synced := true
		for _, f := range e.opened {
			synced = synced && vrt.FileSyncs(f) == 1
		}
		for _, s := range e.sinks {
			synced = synced && s.syncs == 1
		}
		vrt.Assert("every-destination-synced", synced)
	}
	closeAll()
	vrt.Assert("closeAll-closes-every-sink", e.allClosed())
	vrt.Assert("stdout-and-stderr-are-never-closed", vrt.FileCloses(os.Stdout) == 0 && vrt.FileCloses(os.Stderr) == 0)
}

//verif: prop=C19 bounds="Open with 0..2 destinations, each an absolute path, file URL, FILE://localhost URL, registered custom scheme (registered upper-case, used lower/mixed case), relative path, the special names stdout/stderr (never closed), or a destination the file-URL rules refuse (query or fragment on a scheme-less path or file URL, user info, port, foreign host), each opening successfully or failing (every outcome vector); success: 2 symbolic bytes reach every destination, Sync reaches all, closeAll closes each once; failure: every opened handle closed"
func VC19Open2() { vOpenN(2) }

//verif: prop=C19 tier=thorough bounds="Open with 0..3 destinations (as VC19Open2)"
func VC19Open3() { vOpenN(3) }

// ---------------------------------------------------------------- Config.Build

func vBuildCase(maxOut, maxErr int) {
	e := vNewOpenEnv()
	defer e.restore()
	cfg := Config{}
	encKind := vrt.Choice("encoding", 4)
	cfg.Encoding = []string{"json", "console", "", "nope"}[encKind]
	cfg.EncoderConfig = zapcore.EncoderConfig{MessageKey: "msg"}
	timeKind := vrt.Choice("time", 3)
	switch timeKind {
	case 1:
		cfg.EncoderConfig.TimeKey = "ts" // missing EncodeTime
	case 2:
		cfg.EncoderConfig.TimeKey = "ts"
		cfg.EncoderConfig.EncodeTime = zapcore.EpochNanosTimeEncoder
	}
	hasLevel := vrt.Bool("hasLevel")
	if hasLevel {
		cfg.Level = NewAtomicLevelAt(InfoLevel)
	}
	cfg.DisableCaller, cfg.DisableStacktrace = true, true
	anyFail := false
	nOut := vrt.IntRange("nout", 0, maxOut)
	for i := 0; i < nOut; i++ {
		s, f := e.vPath(vName("o", i), 0, 3)
		cfg.OutputPaths = append(cfg.OutputPaths, s)
		anyFail = anyFail || f
	}
	nErr := vrt.IntRange("nerr", 0, maxErr)
	for i := 0; i < nErr; i++ {
		s, f := e.vPath(vName("e", i), 0, 3)
		cfg.ErrorOutputPaths = append(cfg.ErrorOutputPaths, s)
		anyFail = anyFail || f
	}
	wantErr := anyFail || encKind >= 2 || timeKind == 1 || !hasLevel
	switch {
	case !hasLevel:
		vrt.Tag("cfgerr=missing-level")
	case encKind >= 2:
		vrt.Tag("cfgerr=encoding")
	case timeKind == 1:
		vrt.Tag("cfgerr=missing-time-encoder")
	case anyFail:
		vrt.Tag("cfgerr=sink")
	}
	logger, err := cfg.Build()
	vrt.Observe("build-failed", err != nil)
	vrt.Observe("handles", len(e.opened)+len(e.sinks))
	if wantErr {
		vrt.Cover("build-fails")
		vrt.Assert("build-reports-the-error", err != nil && logger == nil)
		vrt.Assert("failed-build-leaves-no-sink-open", e.allClosed())
		return
	}
	vrt.Cover("build-succeeds")
	if err != nil || logger == nil {
		vrt.Fail("build-succeeds-on-a-valid-config")
		return
	}
	vrt.Assert("every-destination-opened", len(e.opened)+len(e.sinks) == nOut+nErr)
	vrt.Assert("success-closes-nothing", e.noneClosed())
	logger.Info("m")
	// every output destination got exactly one line; error outputs got nothing
	nlines := 0
	for _, f := range e.opened {
		if len(vrt.FileData(f)) > 0 {
			nlines++
		}
	}
	for _, s := range e.sinks {
		if len(s.data) > 0 {
			nlines++
		}
	}
	vrt.Assert("every-output-receives-the-entry-and-no-error-output-does", nlines == nOut)
}

//verif: prop=C19 bounds="Config.Build: encoding in {json, console, empty, unknown} x TimeKey/EncodeTime in {unset, key without encoder, both} x Level set/missing x 0..2 output paths x 0..1 error-output paths from {absolute path, custom scheme} with every success/failure vector: error => nothing left open; success => one line reaches every output"
func VC19Build() { vBuildCase(2, 1) }

//verif: prop=C19 tier=thorough bounds="Config.Build with 0..2 output and 0..2 error-output paths"
func VC19BuildDeep() { vBuildCase(2, 2) }

// ---------------------------------------------------------------- file URL validation

func vURLCase() {
	e := vNewOpenEnv()
	defer e.restore()
	u := &url.URL{Scheme: "file"}
	hasUser := vrt.Bool("user")
	if hasUser {
		u.User = url.User("u")
	}
	// one component at a time carries a symbolic byte (rejections print the URL, whose escaping would
	// otherwise multiply the cases of every component with every other)
	which := vrt.Choice("symbolic-part", 4) // 0 fragment, 1 query, 2 host, 3 path
	frag, query := "", ""
	switch vrt.Choice("fragquery", 3) {
	case 1:
		frag = "f"
	case 2:
		query = "q=1"
	}
	if which == 0 {
		frag = vrt.String("frag", vrt.Choice("fraglen", 2))
	}
	if which == 1 {
		query = vrt.String("query", vrt.Choice("querylen", 2))
	}
	u.Fragment, u.RawQuery = frag, query
	hostKind := vrt.Choice("host", 5)
	if which == 2 {
		hostKind = 5 + vrt.Choice("symhost", 2)
	}
	switch hostKind {
	case 0:
		u.Host = ""
	case 1:
		u.Host = "localhost"
	case 2:
		u.Host = "localhost:8080"
	case 3:
		u.Host = "example.com"
	case 4:
		u.Host = ":80"
	case 5:
		u.Host = "localhos" + vrt.String("h", 1) // one symbolic byte: equal to localhost only for 't'
	case 6:
		u.Host = "localhost:" + vrt.String("port", 1)
	}
	u.Path = "/p/x"
	if which == 3 {
		u.Path = "/p/" + vrt.String("path", 1)
	}
	sink, err := _sinkRegistry.newFileSinkFromURL(u)
	vrt.Observe("url-rejected", err != nil)
	hostOK := hostKind == 0 || hostKind == 1 || (hostKind == 5 && u.Host == "localhost")
	hasPort := hostKind == 2 || hostKind == 4 || hostKind == 6
	want := !hasUser && frag == "" && query == "" && hostOK && !hasPort
	if want {
		vrt.Cover("accepted")
		vrt.Assert("valid-file-url-opens-exactly-its-path", err == nil && sink != nil && len(e.asked) == 1 && e.asked[0] == u.Path)
	} else {
		vrt.Cover("rejected")
		vrt.Assert("invalid-file-url-rejected-and-nothing-opened", err != nil && len(e.asked) == 0)
	}
}

//verif: prop=C19 bounds="newFileSinkFromURL on url.URL values: user info present/absent, fragment/query absent, concrete or 0..1 symbolic bytes, host from {empty, localhost, localhost:8080, example.com, :80, localhos+1 symbolic byte, localhost:+1 symbolic port byte}, path concrete or with 1 symbolic byte (one component symbolic at a time); url.Parse itself is trusted (executed concretely in VC19Open*)"
func VC19FileURL() { vURLCase() }

// ---------------------------------------------------------------- registries

func vRegistryCase(maxLen int) {
	sr := newSinkRegistry()
	factory := func(*url.URL) (Sink, error) { return nil, errors.New("unused") }
	if sr.RegisterSink("known", factory) != nil {
		vrt.Fail("registering-a-fresh-valid-scheme-failed")
		return
	}
	n := vrt.Choice("len", maxLen+1)
	name := vrt.String("scheme", n)
	for i := 0; i < n; i++ {
		vrt.Assume(name[i] < 0x80)
	}
	before := len(sr.factories)
	err := sr.RegisterSink(name, factory)
	vrt.Observe("register-failed", err != nil)
	// reference: RFC 3986 scheme = ALPHA *( ALPHA / DIGIT / "+" / "-" / "." ), case-insensitive
	valid := n > 0
	lower := make([]byte, n)
	for i := 0; i < n; i++ {
		c := name[i]
		if c >= 'A' && c <= 'Z' {
			c += 'a' - 'A'
		}
		lower[i] = c
		alpha := c >= 'a' && c <= 'z'
		if i == 0 {
			valid = valid && alpha
		} else {
			valid = valid && (alpha || (c >= '0' && c <= '9') || c == '+' || c == '-' || c == '.')
		}
	}
	dup := string(lower) == "known" || string(lower) == "file"
	if valid && !dup {
		vrt.Cover("registered")
		_, has := sr.factories[string(lower)]
		vrt.Assert("valid-new-scheme-registered-under-its-lower-case-name", err == nil && has && len(sr.factories) == before+1)
	} else {
		vrt.Cover("refused")
		_, hasFile := sr.factories["file"]
		_, hasKnown := sr.factories["known"]
		vrt.Assert("invalid-or-duplicate-scheme-refused-registry-unchanged", err != nil && len(sr.factories) == before && hasFile && hasKnown)
	}
}

//verif: prop=C19 bounds="RegisterSink with scheme names of 0..2 symbolic ASCII bytes on a registry holding file and known: accepted iff RFC 3986 scheme syntax and not already present (case-insensitively); refusal leaves the registry unchanged (accepted names are concretised when they enter the map, so the accepted part is enumerated, the rejected part solver-quantified)"
func VC19RegisterSink() { vRegistryCase(2) }

//verif: prop=C19 tier=thorough bounds="RegisterSink with scheme names of 0..3 symbolic ASCII bytes"
func VC19RegisterSink3() { vRegistryCase(3) }

func vDupSchemeCase() {
	sr := newSinkRegistry()
	factory := func(*url.URL) (Sink, error) { return nil, errors.New("unused") }
	// 5-byte names whose lower-casing may equal "known" / 4-byte "file"
	kb := vrt.Bytes("k", 5)
	for i := 0; i < 5; i++ {
		vrt.Assume(kb[i]|0x20 == "known"[i]) // either case of each letter
	}
	k := string(kb)
	if sr.RegisterSink("known", factory) != nil {
		return
	}
	vrt.Cover("case-variant")
	vrt.Assert("case-variant-of-a-registered-scheme-refused", sr.RegisterSink(k, factory) != nil && len(sr.factories) == 2)
}

//verif: prop=C19 bounds="every upper/lower-case variant of an already registered 5-letter scheme is refused"
func VC19DuplicateScheme() { vDupSchemeCase() }

func vEncoderRegistryCase() {
	saved := map[string]func(zapcore.EncoderConfig) (zapcore.Encoder, error){}
	for k, v := range _encoderNameToConstructor {
		saved[k] = v
	}
	defer func() { _encoderNameToConstructor = saved }()
	ctor := func(zapcore.EncoderConfig) (zapcore.Encoder, error) { return nil, errors.New("unused") }
	var name string
	switch vrt.Choice("shape", 5) {
	case 0:
		name = ""
	case 1:
		name = vrt.String("enc", 1)
	case 2:
		name = "jso" + vrt.String("enc", 1)
	case 3:
		name = "consol" + vrt.String("enc", 1)
	case 4:
		name = "json" + vrt.String("enc", 1)
	}
	n := len(name)
	before := len(_encoderNameToConstructor)
	err := RegisterEncoder(name, ctor)
	dup := name == "json" || name == "console"
	if n > 0 && !dup {
		vrt.Cover("registered")
		_, has := _encoderNameToConstructor[name]
		vrt.Assert("new-encoder-name-registered", err == nil && has && len(_encoderNameToConstructor) == before+1)
		_, err2 := newEncoder(name, zapcore.EncoderConfig{})
		vrt.Assert("registered-constructor-is-the-one-used", err2 != nil && err2.Error() == "unused")
	} else {
		vrt.Cover("refused")
		vrt.Assert("empty-or-duplicate-encoder-name-refused-registry-unchanged", err != nil && len(_encoderNameToConstructor) == before)
		if dup {
			enc, err2 := newEncoder(name, zapcore.EncoderConfig{})
			vrt.Assert("built-in-constructor-kept", err2 == nil && enc != nil)
		}
	}
}

//verif: prop=C19 bounds="RegisterEncoder with names {empty, 1 symbolic byte, jso+1, consol+1, json+1 symbolic byte} against the built-in json/console registry"
func VC19RegisterEncoder() { vEncoderRegistryCase() }

// ---------------------------------------------------------------- std-log redirection

func vStdLogCase() {
	flags := int(vrt.Int32("flags"))
	prefix := "p" + vrt.String("prefix", 1)
	savedF, savedP, savedW := log.Flags(), log.Prefix(), log.Writer()
	defer func() { log.SetFlags(savedF); log.SetPrefix(savedP); log.SetOutput(savedW) }()
	marker := &vSchemeSink{name: "prior-writer"}
	log.SetFlags(flags)
	log.SetPrefix(prefix)
	log.SetOutput(marker)

	rec := vNewCore("rec", zapcore.DebugLevel)
	logger := New(rec)
	lvl := zapcore.Level(vrt.Int8("level"))
	valid := lvl >= DebugLevel && lvl <= FatalLevel
	restore, err := RedirectStdLogAt(logger, lvl)
	vrt.Observe("redirect-failed", err != nil)
	vrt.Observe("flags-after", log.Flags())
	if !valid {
		vrt.Cover("invalid-level")
		vrt.Tag("stdlog=invalid-level")
		vrt.Assert("invalid-level-reports-error", err != nil && restore == nil)
		vrt.Assert("failed-redirect-leaves-flags-unchanged", log.Flags() == flags)
		vrt.Assert("failed-redirect-leaves-prefix-unchanged", log.Prefix() == prefix)
		vrt.Assert("failed-redirect-leaves-writer-unchanged", log.Writer() == zapcore.WriteSyncer(marker))
		return
	}
	vrt.Cover("valid-level")
	if err != nil || restore == nil {
		vrt.Fail("valid-level-redirects")
		return
	}
	vrt.Assert("redirect-clears-annotations", log.Flags() == 0 && log.Prefix() == "")
	if lvl < DPanicLevel {
		log.Print("hello")
		ok := len(rec.st.writes) == 1 && rec.st.writes[0].ent.Level == lvl && rec.st.writes[0].ent.Message == "hello"
		vrt.Assert("std-log-output-arrives-at-the-requested-level", ok)
		vrt.Assert("prior-writer-bypassed", marker.writes == 0)
	}
	restore()
	vrt.Assert("restore-returns-flags", log.Flags() == flags)
	vrt.Assert("restore-returns-prefix", log.Prefix() == prefix)
	vrt.Assert("restore-resets-output-to-stderr", log.Writer() == zapcore.WriteSyncer(os.Stderr))
}

//verif: prop=C19 bounds="RedirectStdLogAt with any level (symbolic int8, all 256 values) under arbitrary prior flags (symbolic int32) and a prefix with 1 symbolic byte: invalid level => error and flags/prefix/writer unchanged; valid level => output arrives at that level, restore() returns flags and prefix and resets the writer to os.Stderr (documented)"
func VC19StdLog() { vStdLogCase() }

var _ = fmt.Sprintf
