//go:build verif

package zap

import (
	"sync"
	"time"

	vrt "go.uber.org/zap/internal/vrt"
	"go.uber.org/zap/zapcore"
	"go.uber.org/zap/zaptest/observer"
)

// C09: two goroutines, one or two API calls each, on shared loggers/cores. The executor explores every
// interleaving of their synchronisation operations (mutexes, atomics, Once, pools, channels) within the
// preemption bound; on each of them a happens-before monitor watches every load and store of shared
// cells, and deadlocks and panics end the path as violations.

// vPar runs a and b on two goroutines and waits for both.
func vPar(a, b func()) {
	var wg sync.WaitGroup
	wg.Add(2)
	go func() { defer wg.Done(); a() }()
	go func() { defer wg.Done(); b() }()
	wg.Wait()
}

type vSafeSink struct {
	mu    sync.Mutex
	lines int
}

func (s *vSafeSink) Write(p []byte) (int, error) {
	s.mu.Lock()
	s.lines++
	s.mu.Unlock()
	return len(p), nil
}
func (s *vSafeSink) Sync() error { return nil }

func vRecoverPanic(f func()) {
	defer func() { _ = recover() }()
	f()
}

const vC09Programs = 18

func vC09Program(prog int, warm bool) {
	obsCore, logs := observer.New(zapcore.DebugLevel)
	base := New(obsCore)
	switch prog {
	case 0: // a freshly derived WithLazy logger used by two goroutines at once
		l := base.WithLazy(Int("lazy", 1))
		if warm {
			l.Info("warm")
		}
		vPar(func() { l.Info("a") }, func() { l.Info("b") })
	case 1: // logging while deriving
		l := base.With(Int("ctx", 1))
		if warm {
			l.Info("warm")
		}
		vPar(func() { l.Info("a") }, func() { l.With(Int("c", 2)).Info("b") })
	case 2:
		l := base.Named("n")
		if warm {
			l.Info("warm")
		}
		vPar(func() { l.Info("a") }, func() { l.Named("m").WithOptions(AddCallerSkip(1)).Info("b") })
	case 3: // level changes while logging
		lvl := NewAtomicLevel()
		core, _ := observer.New(lvl)
		l := New(core)
		if warm {
			l.Info("warm")
		}
		vPar(func() { l.Info("a"); _ = l.Level() }, func() { lvl.SetLevel(zapcore.ErrorLevel); _ = lvl.Enabled(zapcore.InfoLevel) })
	case 4: // global logger replacement and use
		if warm {
			L().Info("warm")
		}
		var undo func()
		vPar(func() { L().Info("a"); S().Info("b") }, func() { undo = ReplaceGlobals(base) })
		undo()
	case 5: // sampler: same key from two goroutines
		s := zapcore.NewSamplerWithOptions(obsCore, time.Second, 1, 2)
		l := New(s, WithClock(vFixedClock{}))
		if warm {
			l.Info("m")
		}
		vPar(func() { l.Info("m") }, func() { l.Info("m") })
	case 6: // tee + hooks + increase-level
		other, _ := observer.New(zapcore.InfoLevel)
		hooks := 0
		var hmu sync.Mutex
		c := zapcore.RegisterHooks(zapcore.NewTee(obsCore, other), func(zapcore.Entry) error { hmu.Lock(); hooks++; hmu.Unlock(); return nil })
		l := New(c, IncreaseLevel(zapcore.InfoLevel))
		if warm {
			l.Info("warm")
		}
		vPar(func() { l.Info("a") }, func() { l.Warn("b") })
	case 7: // observer reads while writing
		if warm {
			base.Info("warm")
		}
		vPar(func() { base.Info("a") }, func() { _ = logs.All(); _ = logs.TakeAll(); _ = logs.Len() })
	case 8: // sugared logger and Sync
		s := base.Sugar()
		if warm {
			s.Infow("warm", "k", 1)
		}
		vPar(func() { s.Infow("a", "k", 1) }, func() { s.With("c", 2).Infof("%d", 3); _ = s.Sync() })
	case 9: // JSON IO core over a locked sink
		sink := &vSafeSink{}
		l := New(zapcore.NewCore(zapcore.NewJSONEncoder(zapcore.EncoderConfig{MessageKey: "m"}), zapcore.Lock(zapcore.AddSync(sink)), zapcore.DebugLevel))
		if warm {
			l.Info("warm")
		}
		vPar(func() { l.Info("a", Int("k", 1)) }, func() { l.Info("b"); _ = l.Sync() })
	case 10: // buffered syncer: write, sync and stop
		sink := &vSafeSink{}
		bws := &zapcore.BufferedWriteSyncer{WS: zapcore.AddSync(sink), Size: 64, FlushInterval: time.Hour, Clock: vNoTickClock{}}
		if warm {
			_, _ = bws.Write([]byte("warm\n"))
		}
		vPar(func() { _, _ = bws.Write([]byte("a\n")) }, func() { _ = bws.Sync(); _ = bws.Stop() })
	case 11: // a recovered Panic-level call next to ordinary logging (pooled checked entries, terminal hooks)
		if warm {
			base.Info("warm")
		}
		vPar(func() { vRecoverPanic(func() { base.Panic("boom") }) }, func() { base.Info("b") })
	case 12: // Check/Write next to a custom after-hook
		l := base.WithOptions(WithFatalHook(vHook{"fatal"}))
		if warm {
			l.Info("warm")
		}
		vPar(func() { l.Fatal("f") }, func() {
			if ce := l.Check(zapcore.InfoLevel, "b"); ce != nil {
				ce.Write(Int("k", 1))
			}
		})
	case 13: // lazy core below a tee, derived further while in use
		l := New(zapcore.NewTee(obsCore, zapcore.NewLazyWith(obsCore, []Field{Int("z", 1)})))
		if warm {
			l.Info("warm")
		}
		vPar(func() { l.Info("a") }, func() { l.With(Int("c", 1)).Info("b") })
	case 14: // WithLazy child of a WithLazy parent, both fresh
		p := base.WithLazy(Int("p", 1))
		c := p.WithLazy(Int("c", 2))
		if warm {
			p.Info("warm")
		}
		vPar(func() { p.Info("a") }, func() { c.Info("b") })
	case 15: // errors and stack capture (pooled wrappers)
		l := base.WithOptions(AddCaller(), AddStacktrace(zapcore.WarnLevel))
		if warm {
			l.Warn("warm")
		}
		vPar(func() { l.Warn("a") }, func() { l.Error("b", Errors("e", []error{errC09("x"), errC09("y")})) })
	case 16: // observer filters (matching and not) while another goroutine logs and one drains
		base.Info("first")
		if warm {
			base.Info("warm")
		}
		vPar(func() { base.Info("a"); _ = logs.TakeAll() }, func() {
			_ = logs.FilterMessage("first").Len()
			_ = logs.FilterLevelExact(zapcore.InfoLevel).FilterMessageSnippet("zzz").All()
		})
	case 17: // custom (out-of-range) levels through the colour level encoders, JSON and console
		sink := &vSafeSink{}
		cfg := zapcore.EncoderConfig{MessageKey: "m", LevelKey: "l", EncodeLevel: zapcore.CapitalColorLevelEncoder}
		l := New(zapcore.NewTee(
			zapcore.NewCore(zapcore.NewJSONEncoder(cfg), zapcore.Lock(zapcore.AddSync(sink)), zapcore.Level(-8)),
			zapcore.NewCore(zapcore.NewConsoleEncoder(zapcore.EncoderConfig{MessageKey: "m", LevelKey: "l", EncodeLevel: zapcore.LowercaseColorLevelEncoder}), zapcore.Lock(zapcore.AddSync(sink)), zapcore.Level(-8))))
		if warm {
			l.Log(zapcore.Level(-2), "warm")
		}
		vPar(func() { l.Log(zapcore.Level(-2), "a"); l.Log(zapcore.Level(-4), "c") }, func() { l.Log(zapcore.Level(-3), "b"); l.Log(zapcore.Level(9), "d") })
	}
	vrt.Cover("done")
}

type errC09 string

func (e errC09) Error() string { return string(e) }

//verif: prop=C09 bounds="18 two-goroutine programs (fresh/warm WithLazy loggers, logging while deriving/naming, AtomicLevel changes, ReplaceGlobals vs L()/S(), sampler same key, tee+hooks+increase-level, observer reads, sugared With/Sync, JSON IO core over Lock, BufferedWriteSyncer write/sync/stop, recovered Panic next to Info, custom fatal hook next to Check/Write, lazy core below a tee, nested fresh WithLazy, stack+errors, observer Filter* while logging and draining, custom levels through the colour level encoders), one to three calls per goroutine, on a fresh and on a warmed-up logger; every interleaving of synchronisation operations with at most 2 preemptions; happens-before race monitor, deadlock and panic detection"
func VC09Pairs() {
	vC09Program(vrt.Choice("program", vC09Programs), vrt.Choice("warm", 2) == 1)
}

func vPar3(a, b, c func()) {
	var wg sync.WaitGroup
	wg.Add(3)
	go func() { defer wg.Done(); a() }()
	go func() { defer wg.Done(); b() }()
	go func() { defer wg.Done(); c() }()
	wg.Wait()
}

//verif: prop=C09 tier=thorough bounds="three goroutines, one call each, on 6 programs (fresh WithLazy logger; log + With + Named; sampler on one key; JSON IO core over Lock with Sync; BufferedWriteSyncer write/sync/stop; recovered Panic + Info + Check/Write); at most 3 preemptions"
func VC09Triples() {
	obsCore, _ := observer.New(zapcore.DebugLevel)
	base := New(obsCore)
	switch vrt.Choice("program", 6) {
	case 0:
		l := base.WithLazy(Int("lazy", 1))
		vPar3(func() { l.Info("a") }, func() { l.Info("b") }, func() { l.With(Int("c", 1)).Info("c") })
	case 1:
		l := base.With(Int("ctx", 1))
		vPar3(func() { l.Info("a") }, func() { l.With(Int("c", 2)).Info("b") }, func() { l.Named("n").Info("c") })
	case 2:
		s := zapcore.NewSamplerWithOptions(obsCore, time.Second, 1, 2)
		l := New(s, WithClock(vFixedClock{}))
		vPar3(func() { l.Info("m") }, func() { l.Info("m") }, func() { l.Info("m") })
	case 3:
		sink := &vSafeSink{}
		l := New(zapcore.NewCore(zapcore.NewJSONEncoder(zapcore.EncoderConfig{MessageKey: "m"}), zapcore.Lock(zapcore.AddSync(sink)), zapcore.DebugLevel))
		vPar3(func() { l.Info("a", Int("k", 1)) }, func() { l.Info("b") }, func() { _ = l.Sync() })
	case 4:
		sink := &vSafeSink{}
		bws := &zapcore.BufferedWriteSyncer{WS: zapcore.AddSync(sink), Size: 64, FlushInterval: time.Hour, Clock: vNoTickClock{}}
		vPar3(func() { _, _ = bws.Write([]byte("a\n")) }, func() { _ = bws.Sync() }, func() { _ = bws.Stop() })
	case 5:
		vPar3(func() { vRecoverPanic(func() { base.Panic("boom") }) }, func() { base.Info("b") }, func() {
			if ce := base.Check(zapcore.InfoLevel, "c"); ce != nil {
				ce.Write(Int("k", 1))
			}
		})
	}
	vrt.Cover("done")
}
