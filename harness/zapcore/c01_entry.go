//go:build verif

package zapcore

import (
	"time"

	vrt "go.uber.org/zap/internal/vrt"
)

// vEntryParts describes which metadata the entry carries.
type vEntryShape struct {
	timeSet, named, caller, fn, stack bool
}

func vMakeEntry(sh vEntryShape, lvl Level, msg string) Entry {
	e := Entry{Level: lvl, Message: msg}
	if sh.timeSet {
		e.Time, _ = vSymTime("ent.t")
	}
	if sh.named {
		e.LoggerName = "svc.sub"
	}
	if sh.caller {
		e.Caller = EntryCaller{Defined: true, File: "/a/b/c.go", Line: 42}
		if sh.fn {
			e.Caller.Function = "pkg.fn"
		}
	}
	if sh.stack {
		e.Stack = "stack\n\tline"
	}
	return e
}

// vExpectEntry builds the reference member list for the metadata of an entry (C02: presence, order).
func vExpectEntry(ref *vRefEnc, cfg *EncoderConfig, sh vEntryShape, msg string, levelEnc, nameEnc, callerEnc int) {
	if cfg.LevelKey != "" && levelEnc != 0 {
		if levelEnc >= 2 && vExpectLevel != nil {
			ref.add(cfg.LevelKey, &vExp{kind: xLevel, i: int64(*vExpectLevel), bits: levelEnc})
		} else {
			ref.add(cfg.LevelKey, &vExp{kind: xAnyStr})
		}
	}
	if cfg.TimeKey != "" && sh.timeSet {
		ref.add(cfg.TimeKey, vExpTime(cfg))
		if vTimeSel == vTimeNil {
			// "omitted when the encoder is absent" and "fallbacks keep the object valid" both describe this case
			ref.cur.obj[len(ref.cur.obj)-1].opt = true
		}
	}
	if cfg.NameKey != "" && sh.named {
		ref.add(cfg.NameKey, xs("svc.sub"))
		if nameEnc == 0 {
			ref.cur.obj[len(ref.cur.obj)-1].opt = true
		}
	}
	if sh.caller {
		if cfg.CallerKey != "" && callerEnc != 0 {
			ref.add(cfg.CallerKey, &vExp{kind: xAnyStr})
		}
		if cfg.FunctionKey != "" {
			fn := ""
			if sh.fn {
				fn = "pkg.fn"
			}
			ref.add(cfg.FunctionKey, xs(fn))
		}
	}
	if cfg.MessageKey != "" {
		ref.add(cfg.MessageKey, xs(msg))
	}
}

// vExpectLevel, when set, is the entry's level: the level member must then carry its documented text.
var vExpectLevel *Level

func vPickLevelEncoder(sel int) LevelEncoder {
	switch sel {
	case 1:
		return vNopLevelEncoder
	case 2:
		return LowercaseLevelEncoder
	case 3:
		return CapitalLevelEncoder
	case 4:
		return LowercaseColorLevelEncoder
	case 5:
		return CapitalColorLevelEncoder
	}
	return nil
}

func vPickNameEncoder(sel int) NameEncoder {
	switch sel {
	case 1:
		return vNopNameEncoder
	case 2:
		return FullNameEncoder
	}
	return nil
}

func vPickCallerEncoder(sel int) CallerEncoder {
	switch sel {
	case 1:
		return vNopCallerEncoder
	case 2:
		return ShortCallerEncoder
	case 3:
		return FullCallerEncoder
	}
	return nil
}

func vKeyIf(on bool, k string) string {
	if on {
		return k
	}
	return ""
}

func vEncodeAndCheck(cfg EncoderConfig, ent Entry, expectStack bool, root *vExp, ref *vRefEnc, lineEnding string) {
	enc := NewJSONEncoder(cfg)
	buf, err := enc.EncodeEntry(ent, nil)
	vrt.Assert("encode-returns-nil", err == nil)
	if buf == nil {
		vrt.Fail("encode-returns-buffer")
		return
	}
	out := buf.Bytes()
	vrt.Observe("line", out)
	if expectStack {
		ref.add(cfg.StacktraceKey, xs(ent.Stack))
	}
	v, perr := vrt.ParseJSONObjectLine(out, lineEnding, false)
	if perr != "" {
		vrt.Tag("parse=" + perr)
		vrt.Fail("one-valid-json-object-then-line-ending")
		return
	}
	vMatch("$", v, root)
	vrt.Cover("done")
}

// All 2^7 key presence patterns x 2^5 entry shapes with the default production encoders.
//
//verif: prop=C01,C02 bounds="JSON EncodeEntry without fields: every subset of the 7 metadata keys x every entry shape (time zero/set (symbolic instant), name, caller, function, stack present/absent); production encoders; level Info"
func VC01EntryPresence() {
	bit := func(n string) bool { return vrt.Choice(n, 2) == 1 }
	cfg := EncoderConfig{
		LevelKey: vKeyIf(bit("K.level"), "L"), TimeKey: vKeyIf(bit("K.time"), "T"), NameKey: vKeyIf(bit("K.name"), "N"),
		CallerKey: vKeyIf(bit("K.caller"), "C"), FunctionKey: vKeyIf(bit("K.func"), "F"), MessageKey: vKeyIf(bit("K.msg"), "M"),
		StacktraceKey: vKeyIf(bit("K.stack"), "S"),
		EncodeLevel:   LowercaseLevelEncoder, EncodeTime: EpochNanosTimeEncoder, EncodeDuration: NanosDurationEncoder,
		EncodeCaller: ShortCallerEncoder, EncodeName: FullNameEncoder,
	}
	vTimeSel = vTimeEpochNanos
	sh := vEntryShape{timeSet: bit("E.time"), named: bit("E.name"), caller: bit("E.caller"), stack: bit("E.stack")}
	if sh.caller {
		sh.fn = bit("E.fn")
	}
	ent := vMakeEntry(sh, InfoLevel, "hello")
	root, ref := vNewRef()
	vExpectEntry(ref, &cfg, sh, "hello", 2, 2, 2)
	vEncodeAndCheck(cfg, ent, sh.stack && cfg.StacktraceKey != "", root, ref, "\n")
}

// All keys set; one sub-encoder dimension at a time over its whole menu (nil, no-op, every built-in),
// with the level any int8 and the time a symbolic instant.
//
//verif: prop=C01,C02 bounds="all keys set; level encoder in {nil,no-op,4 built-ins} x level any int8; time encoder in {nil,no-op,7 built-ins} x symbolic instant; name encoder {nil,no-op,full}; caller encoder {nil,no-op,short,full}; one dimension varied at a time"
func VC01EntryEncoders() {
	cfg := EncoderConfig{LevelKey: "L", TimeKey: "T", NameKey: "N", CallerKey: "C", FunctionKey: "F", MessageKey: "M", StacktraceKey: "S",
		EncodeLevel: LowercaseLevelEncoder, EncodeTime: EpochNanosTimeEncoder, EncodeCaller: ShortCallerEncoder, EncodeName: FullNameEncoder}
	vTimeSel = vTimeEpochNanos
	levelEnc, nameEnc, callerEnc := 2, 2, 2
	lvl := InfoLevel
	switch vrt.Choice("dim", 4) {
	case 0:
		levelEnc = vrt.Choice("levelenc", 6)
		cfg.EncodeLevel = vPickLevelEncoder(levelEnc)
		lvl = Level(vrt.Int8("level"))
	case 1:
		cfg.EncodeTime = vPickTimeEncoder("cfg")
	case 2:
		nameEnc = vrt.Choice("nameenc", 3)
		cfg.EncodeName = vPickNameEncoder(nameEnc)
	case 3:
		callerEnc = vrt.Choice("callerenc", 4)
		cfg.EncodeCaller = vPickCallerEncoder(callerEnc)
		vrt.Tag("callerenc=" + []string{"nil", "nop", "short", "full"}[callerEnc])
	}
	sh := vEntryShape{timeSet: true, named: true, caller: true, fn: true, stack: true}
	ent := vMakeEntry(sh, lvl, "hello")
	root, ref := vNewRef()
	vExpectLevel = &lvl
	vExpectEntry(ref, &cfg, sh, "hello", levelEnc, nameEnc, callerEnc)
	vExpectLevel = nil
	vEncodeAndCheck(cfg, ent, true, root, ref, "\n")
}

// Hostile text: message of 2 symbolic bytes, one key with a symbolic byte, line ending variants.
//
//verif: prop=C01,C02 bounds="message of 2 symbolic bytes; one of the 7 keys made of 1 symbolic byte + suffix; logger name/caller file/function/stack with 1 symbolic byte each (one at a time); LineEnding in {default, empty+SkipLineEnding, 1 symbolic byte}"
func VC01EntryHostile() {
	cfg := EncoderConfig{LevelKey: "L", TimeKey: "T", NameKey: "N", CallerKey: "C", FunctionKey: "F", MessageKey: "M", StacktraceKey: "S",
		EncodeLevel: LowercaseLevelEncoder, EncodeTime: EpochNanosTimeEncoder, EncodeCaller: FullCallerEncoder, EncodeName: FullNameEncoder}
	vTimeSel = vTimeEpochNanos
	sh := vEntryShape{timeSet: true, named: true, caller: true, fn: true, stack: true}
	msg := "hello"
	ent := vMakeEntry(sh, ErrorLevel, msg)
	ent.Time = time.Unix(1, 2)
	lineEnding := "\n"
	which := vrt.Choice("hostile", 12)
	hk := vrt.String("hk", 1) + "x"
	name, fn, stack := "svc.sub", "pkg.fn", ent.Stack
	switch which {
	case 0:
		cfg.LevelKey = hk
	case 1:
		cfg.TimeKey = hk
	case 2:
		cfg.NameKey = hk
	case 3:
		cfg.CallerKey = hk
	case 4:
		cfg.FunctionKey = hk
	case 5:
		cfg.MessageKey = hk
	case 6:
		cfg.StacktraceKey = hk
	case 7:
		msg = vrt.String("msg", 2)
		ent.Message = msg
	case 8:
		name = "n" + vrt.String("name", 1)
		ent.LoggerName = name
	case 9:
		fn = vrt.String("fn", 1) + "f"
		ent.Caller.Function = fn
		ent.Caller.File = "/d/" + vrt.String("file", 1) + ".go"
	case 10:
		stack = "st" + vrt.String("stack", 1)
		ent.Stack = stack
	case 11:
		switch vrt.Choice("le", 3) {
		case 0:
			cfg.SkipLineEnding = true
			cfg.LineEnding = "ignored"
			lineEnding = ""
		case 1:
			lineEnding = vrt.String("lebyte", 1)
			cfg.LineEnding = lineEnding
		case 2:
			cfg.LineEnding = ""
		}
	}
	root, ref := vNewRef()
	ref.add(cfg.LevelKey, xs("error"))
	ref.add(cfg.TimeKey, &vExp{kind: xInt, i: 1000000002})
	ref.add(cfg.NameKey, xs(name))
	ref.add(cfg.CallerKey, &vExp{kind: xAnyStr})
	ref.add(cfg.FunctionKey, xs(fn))
	ref.add(cfg.MessageKey, xs(msg))
	ref.add(cfg.StacktraceKey, xs(stack))
	enc := NewJSONEncoder(cfg)
	buf, err := enc.EncodeEntry(ent, nil)
	vrt.Assert("encode-returns-nil", err == nil)
	out := buf.Bytes()
	vrt.Observe("line", out)
	v, perr := vrt.ParseJSONObjectLine(out, lineEnding, false)
	if perr != "" {
		vrt.Tag("parse=" + perr)
		vrt.Fail("one-valid-json-object-then-line-ending")
		return
	}
	vMatch("$", v, root)
	// exactly one line: no raw line break inside the object
	for i, c := range out[:len(out)-len(lineEnding)] {
		_ = i
		vrt.Assert("no-raw-control-byte", c >= 0x20)
	}
}

// Custom time layouts made of arbitrary literal bytes, for the entry time and for a time field.
//
//verif: prop=C01,C02 bounds="TimeEncoderOfLayout(l) with l = 2 symbolic bytes that cannot start a reference-time element (echoed verbatim by time.Format: documented), for the entry time and one time field; layouts mixing reference elements and hostile literals are outside the claim"
func VC01TimeLayout() {
	l := vrt.String("layout", 2)
	cfg := EncoderConfig{TimeKey: "T", MessageKey: "M", EncodeTime: TimeEncoderOfLayout(l)}
	ent := Entry{Level: InfoLevel, Message: "m", Time: time.Unix(5, 0)}
	enc := NewJSONEncoder(cfg)
	buf, err := enc.EncodeEntry(ent, []Field{{Key: "when", Type: TimeType, Integer: 7, Interface: time.UTC}})
	vrt.Assert("encode-returns-nil", err == nil)
	out := buf.Bytes()
	vrt.Observe("line", out)
	root, ref := vNewRef()
	ref.add("T", xs(l))
	ref.add("M", xs("m"))
	ref.add("when", xs(l))
	v, perr := vrt.ParseJSONObjectLine(out, "\n", false)
	if perr != "" {
		vrt.Tag("parse=" + perr)
		vrt.Fail("one-valid-json-object-then-line-ending")
		return
	}
	vMatch("$", v, root)
}

// Layouts that print the zone abbreviation: the location's name is caller-controlled text that ends up
// inside the JSON string.
//
//verif: prop=C01,C02 bounds="layout-based time encoder with a layout that prints the zone abbreviation (RFC1123, RFC822, UnixDate, bare MST) x a FixedZone whose name is 2 symbolic bytes, for the entry time (concrete or symbolic instant) and a time field: the line stays one valid JSON object and the zone name decodes back byte for byte"
func VC01TimeZoneName() {
	layout := []string{time.RFC1123, time.RFC822, time.UnixDate, "MST"}[vrt.Choice("layout", 4)]
	zone := vrt.String("zone", 2)
	loc := time.FixedZone(zone, 3600)
	sec := int64(5)
	if vrt.Choice("instant", 2) == 1 {
		sec = vrt.Int64("sec")
		vrt.Assume(sec > 0 && sec < 4000000000)
	}
	cfg := EncoderConfig{TimeKey: "T", MessageKey: "M", EncodeTime: TimeEncoderOfLayout(layout)}
	ent := Entry{Level: InfoLevel, Message: "m", Time: time.Unix(sec, 0).In(loc)}
	enc := NewJSONEncoder(cfg)
	buf, err := enc.EncodeEntry(ent, []Field{{Key: "when", Type: TimeType, Integer: 7, Interface: loc}})
	vrt.Assert("encode-returns-nil", err == nil)
	out := buf.Bytes()
	vrt.Observe("line", out)
	v, perr := vrt.ParseJSONObjectLine(out, "\n", false)
	if perr != "" {
		vrt.Tag("parse=" + perr)
		vrt.Fail("one-valid-json-object-then-line-ending")
		return
	}
	for _, c := range out[:len(out)-1] {
		vrt.Assert("no-raw-control-byte", c >= 0x20)
	}
	// the decoded strings contain the zone name (with invalid UTF-8 replaced, as everywhere in the encoder)
	want := vrt.ReplaceInvalidUTF8([]byte(zone))
	for _, k := range []string{"T", "when"} {
		m := v.Get(k)
		if m == nil || m.Kind != vrt.JStr {
			vrt.Fail("time-member-is-a-string")
			return
		}
		vrt.Assert("zone-name-recoverable", vContainsBytes(m.Str, want))
	}
	vrt.Cover("done")
}

func vContainsBytes(hay, needle []byte) bool {
	for i := 0; i+len(needle) <= len(hay); i++ {
		if string(hay[i:i+len(needle)]) == string(needle) {
			return true
		}
	}
	return false
}
