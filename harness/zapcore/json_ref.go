//go:build verif

package zapcore

import (
	"errors"
	"fmt"
	"math"
	"strconv"
	"time"

	vrt "go.uber.org/zap/internal/vrt"
)

// ---- expected trees (the independent reference encoding)

const (
	xNull = iota
	xBool
	xInt   // signed integer value
	xUint  // unsigned integer value
	xF64   // float64 by bits; NaN/Inf expected as strings
	xF32   // float32 by bits
	xStr   // exact bytes (after replacing invalid UTF-8)
	xAnyStr // some string (contents come from a trusted formatter: time layout, duration, base64, complex)
	xAnyNum // some number (epoch floats: digits trusted to strconv)
	xObj
	xArr
	xAny // any JSON value (reflected payloads)
	xComplex // a string "<re><+ unless im is negative or NaN><im>i" whose two parts are the given floats
	xLevel   // the level's documented text under built-in level encoder number bits (2 lowercase, 3 capital, 4/5 the same in colour)
)

type vExp struct {
	kind int
	b    bool
	i    int64
	u    uint64
	f64  float64
	f32  float32
	re   float64
	im   float64
	bits int
	s    []byte
	obj  []vExpMember
	arr  []*vExp
}

type vExpMember struct {
	key []byte
	val *vExp
	opt bool // the statement allows this member to be omitted or present
}

// vRefEnc accumulates the reference tree with zap's documented nesting semantics:
// a namespace nests every later field of the same object.
type vRefEnc struct {
	cur *vExp
}

func vNewRef() (*vExp, *vRefEnc) {
	root := &vExp{kind: xObj}
	return root, &vRefEnc{cur: root}
}

func (r *vRefEnc) add(key string, v *vExp) {
	r.cur.obj = append(r.cur.obj, vExpMember{key: vrt.ReplaceInvalidUTF8([]byte(key)), val: v})
}

func (r *vRefEnc) namespace(key string) {
	n := &vExp{kind: xObj}
	r.add(key, n)
	r.cur = n
}

func xs(s string) *vExp { return &vExp{kind: xStr, s: vrt.ReplaceInvalidUTF8([]byte(s))} }

// vMatch compares a decoded value with the expectation; every disagreement is an assertion label.
func vMatch(where string, got *vrt.JVal, want *vExp) {
	if got == nil {
		vrt.Fail(where + ":missing")
		return
	}
	switch want.kind {
	case xNull:
		vrt.Assert(where+":null", got.Kind == vrt.JNull)
	case xBool:
		vrt.Assert(where+":bool", got.Kind == vrt.JBool && got.Bool == want.b)
	case xInt:
		if got.Kind != vrt.JNum {
			vrt.Fail(where + ":int-kind")
			return
		}
		vrt.Assert(where+":int-value", vNumIsInt(got.Num, want.i))
	case xUint:
		if got.Kind != vrt.JNum {
			vrt.Fail(where + ":uint-kind")
			return
		}
		vrt.Assert(where+":uint-value", vNumIsUint(got.Num, want.u))
	case xF64:
		vMatchFloat(where, got, want.f64, 64)
	case xF32:
		vMatchFloat(where, got, float64(want.f32), 32)
	case xStr:
		vrt.Assert(where+":string", got.Kind == vrt.JStr && string(got.Str) == string(want.s))
	case xAnyStr:
		vrt.Assert(where+":some-string", got.Kind == vrt.JStr)
	case xComplex:
		if got.Kind != vrt.JStr {
			vrt.Fail(where + ":complex-as-string")
			return
		}
		vrt.Assert(where+":complex-parts-recoverable", vComplexMatches(got.Str, want.re, want.im, want.bits))
	case xLevel:
		if got.Kind != vrt.JStr {
			vrt.Fail(where + ":level-as-string")
			return
		}
		vrt.Assert(where+":level-recoverable-from-its-documented-text", vLevelMatches(got.Str, Level(want.i), want.bits))
	case xAnyNum:
		vrt.Assert(where+":some-number", got.Kind == vrt.JNum)
	case xAny:
	case xObj:
		if got.Kind != vrt.JObj {
			vrt.Fail(where + ":object-kind")
			return
		}
		g := 0
		for i := range want.obj {
			w := want.obj[i]
			if w.opt {
				// optional member: consume it only if it is there
				if g < len(got.Obj) && string(got.Obj[g].Key) == string(w.key) {
					vMatch(where+"."+strconv.Itoa(i), got.Obj[g].Val, w.val)
					g++
				}
				continue
			}
			if g >= len(got.Obj) {
				vrt.Fail(where + ":member-missing")
				return
			}
			vrt.Assert(where+":key-order", string(got.Obj[g].Key) == string(w.key))
			vMatch(where+"."+strconv.Itoa(i), got.Obj[g].Val, w.val)
			g++
		}
		vrt.Assert(where+":no-extra-members", g == len(got.Obj))
	case xArr:
		if got.Kind != vrt.JArr {
			vrt.Fail(where + ":array-kind")
			return
		}
		vrt.Assert(where+":element-count", len(got.Arr) == len(want.arr))
		for i := range want.arr {
			if i >= len(got.Arr) {
				break
			}
			vMatch(where+"["+strconv.Itoa(i)+"]", got.Arr[i], want.arr[i])
		}
	}
}

// vNumIsInt: does the number text stand for exactly v? Token digits carry their value term.
func vNumIsInt(num []byte, v int64) bool {
	for _, c := range num {
		if tv, ok := vrt.TokInt(c); ok {
			return tv == v
		}
		if tv, ok := vrt.TokUint(c); ok {
			return v >= 0 && tv == uint64(v)
		}
	}
	p, err := strconv.ParseInt(string(num), 10, 64)
	return err == nil && p == v
}

// vLevelMatches: the documented text of a level under the built-in level encoders, written down independently:
// the seven named levels by name (all-caps for the capital encoders), any other value as Level(N) / LEVEL(N),
// and for the colour encoders wrapped in ESC[<colour>m ... ESC[0m with magenta debug, blue info, yellow warn and
// red for everything else.
func vLevelMatches(s []byte, lvl Level, enc int) bool {
	capital := enc == 3 || enc == 5
	colour := enc == 4 || enc == 5
	prefix, suffix := "", ""
	if colour {
		code := "31"
		switch lvl {
		case DebugLevel:
			code = "35"
		case InfoLevel:
			code = "34"
		case WarnLevel:
			code = "33"
		}
		prefix, suffix = "\x1b["+code+"m", "\x1b[0m"
	}
	if lvl >= DebugLevel && lvl <= FatalLevel {
		name := []string{"debug", "info", "warn", "error", "dpanic", "panic", "fatal"}[lvl-DebugLevel]
		if capital {
			name = []string{"DEBUG", "INFO", "WARN", "ERROR", "DPANIC", "PANIC", "FATAL"}[lvl-DebugLevel]
		}
		return string(s) == prefix+name+suffix
	}
	open := "Level("
	if capital {
		open = "LEVEL("
	}
	head, tail := prefix+open, ")"+suffix
	if len(s) < len(head)+len(tail)+1 || string(s[:len(head)]) != head || string(s[len(s)-len(tail):]) != tail {
		return false
	}
	return vNumIsInt(s[len(head):len(s)-len(tail)], int64(lvl))
}

func vNumIsUint(num []byte, v uint64) bool {
	for _, c := range num {
		if tv, ok := vrt.TokUint(c); ok {
			return tv == v
		}
		if tv, ok := vrt.TokInt(c); ok {
			return tv >= 0 && uint64(tv) == v
		}
	}
	p, err := strconv.ParseUint(string(num), 10, 64)
	return err == nil && p == v
}

func vMatchFloat(where string, got *vrt.JVal, f float64, bits int) {
	switch {
	case f != f:
		vrt.Assert(where+":NaN-as-string", got.Kind == vrt.JStr && string(got.Str) == "NaN")
	case f > math.MaxFloat64:
		vrt.Assert(where+":+Inf-as-string", got.Kind == vrt.JStr && string(got.Str) == "+Inf")
	case f < -math.MaxFloat64:
		vrt.Assert(where+":-Inf-as-string", got.Kind == vrt.JStr && string(got.Str) == "-Inf")
	default:
		if got.Kind != vrt.JNum {
			vrt.Fail(where + ":float-kind")
			return
		}
		for _, c := range got.Num {
			if tv, tb, ok := vrt.TokFloat(c); ok {
				vrt.Assert(where+":float-bits", tb == bits && math.Float64bits(tv) == math.Float64bits(f))
				return
			}
			if iv, ok := vrt.TokInt(c); ok {
				// printed through the integer formatter: a decoder reads the digits back as this float
				neg := len(got.Num) > 0 && got.Num[0] == '-'
				back := float64(iv)
				vrt.Assert(where+":float-bits", math.Float64bits(back) == math.Float64bits(f) && neg == (iv < 0))
				return
			}
		}
		p, err := strconv.ParseFloat(string(got.Num), bits)
		vrt.Assert(where+":float-bits", err == nil && math.Float64bits(p) == math.Float64bits(f))
	}
}

// vComplexMatches: s is <real part><'+' unless the imaginary part is negative or NaN><imaginary part>'i', each part
// being the float (by value token under the engine, by strconv's text natively) or NaN / +Inf / -Inf spelled out.
func vComplexMatches(s []byte, re, im float64, bits int) bool {
	if !vrt.Symbolic() {
		want := strconv.FormatFloat(re, 'f', -1, bits)
		if im >= 0 {
			want += "+"
		}
		want += strconv.FormatFloat(im, 'f', -1, bits) + "i"
		return string(s) == want
	}
	pos := 0
	part := func(f float64) bool {
		lit := ""
		switch {
		case f != f:
			lit = "NaN"
		case f > math.MaxFloat64:
			lit = "+Inf"
		case f < -math.MaxFloat64:
			lit = "-Inf"
		}
		if lit != "" {
			if pos+len(lit) > len(s) || string(s[pos:pos+len(lit)]) != lit {
				return false
			}
			pos += len(lit)
			return true
		}
		if pos < len(s) && s[pos] == '-' {
			pos++ // the sign of a finite value is written in front of its digits (the value below carries it too)
		}
		if pos >= len(s) {
			return false
		}
		tv, tb, ok := vrt.TokFloat(s[pos])
		if !ok || tb != bits || math.Float64bits(tv) != math.Float64bits(f) {
			return false
		}
		id := vrt.TokID(s[pos])
		for pos < len(s) && vrt.TokID(s[pos]) == id {
			pos++
		}
		return true
	}
	if !part(re) {
		return false
	}
	if im >= 0 {
		if pos >= len(s) || s[pos] != '+' {
			return false
		}
		pos++
	}
	if !part(im) {
		return false
	}
	return pos == len(s)-1 && s[pos] == 'i'
}

// ---- marshalers used as field payloads

type vObjMarshaler struct {
	inner []Field
	fail  bool
}

func (m *vObjMarshaler) MarshalLogObject(enc ObjectEncoder) error {
	for _, f := range m.inner {
		f.AddTo(enc)
	}
	if m.fail {
		return errors.New("obj-failed")
	}
	return nil
}

type vArrMarshaler struct {
	ints  []int64
	strs  []string
	objs  []*vObjMarshaler
	fail  bool
	// reflectFail: the last element is a reflected value that cannot be encoded
	reflectFail bool
}

func (m *vArrMarshaler) MarshalLogArray(enc ArrayEncoder) error {
	for _, v := range m.ints {
		enc.AppendInt64(v)
	}
	for _, s := range m.strs {
		enc.AppendString(s)
	}
	for _, o := range m.objs {
		if err := enc.AppendObject(o); err != nil {
			return err
		}
	}
	if m.reflectFail {
		if err := enc.AppendReflected(make(chan int)); err != nil {
			return err
		}
	}
	if m.fail {
		return errors.New("arr-failed")
	}
	return nil
}

type vStringer struct {
	s     string
	panic bool
}

func (s *vStringer) String() string {
	if s.panic {
		panic("stringer-panicked")
	}
	return s.s // nil receiver: nil-pointer dereference
}

type vErr struct {
	msg   string
	panic bool
}

func (e *vErr) Error() string {
	if e.panic {
		panic("error-panicked")
	}
	return e.msg
}

type vErrGroup struct {
	msg  string
	errs []error
}

func (e vErrGroup) Error() string   { return e.msg }
func (e vErrGroup) Errors() []error { return e.errs }

type vVerboseErr struct{ msg, verbose string }

func (e vVerboseErr) Error() string { return e.msg }
func (e vVerboseErr) Format(s fmt.State, verb rune) {
	if verb == 'v' && s.Flag('+') {
		_, _ = s.Write([]byte(e.verbose))
		return
	}
	_, _ = s.Write([]byte(e.msg))
}

// vKey returns the key of field number idx: distinct ordinary keys, with hostile variants by choice.
func vKey(id string, hostile bool) string {
	if !hostile {
		return "k" + id
	}
	switch vrt.Choice(id+".key", 4) {
	case 0:
		return ""
	case 1:
		return "q\"" + id
	case 2:
		return vrt.String(id+".keybyte", 1) + id
	}
	return "k" + id
}

// vLiteNow makes the data of the field being built concrete (multi-field cases keep only one
// field's payload symbolic so that path counts add rather than multiply).
var vLiteNow bool

func vI64(n string) int64 {
	if vLiteNow {
		return -7
	}
	return vrt.Int64(n)
}

func vStr1(n string) string {
	if vLiteNow {
		return "\t"
	}
	return vrt.String(n, 1)
}

func vInnerChoice(n string, k int) int {
	if vLiteNow {
		return 1 % k
	}
	return vrt.Choice(n, k)
}

// vFieldMenuSize is the number of field templates of vMakeField.
const vFieldMenuSize = 26

// vMakeField builds field number `sel` of the menu under key `key`, records into ref what a decoder must
// find, and tags fault sites. depth limits marshaler nesting.
func vMakeField(id string, sel int, key string, ref *vRefEnc, cfg *EncoderConfig, depth int) Field {
	switch sel {
	case 0:
		v := vI64(id + ".i64")
		ref.add(key, &vExp{kind: xInt, i: v})
		return Field{Key: key, Type: Int64Type, Integer: v}
	case 1:
		v := vrt.Int32(id + ".i32")
		ref.add(key, &vExp{kind: xInt, i: int64(v)})
		return Field{Key: key, Type: Int32Type, Integer: int64(v)}
	case 2:
		v := vrt.Int8(id + ".i8")
		ref.add(key, &vExp{kind: xInt, i: int64(v)})
		return Field{Key: key, Type: Int8Type, Integer: int64(v)}
	case 3:
		v := vrt.Uint64(id + ".u64")
		ref.add(key, &vExp{kind: xUint, u: v})
		return Field{Key: key, Type: Uint64Type, Integer: int64(v)}
	case 4:
		v := vrt.Uint16(id + ".u16")
		ref.add(key, &vExp{kind: xUint, u: uint64(v)})
		return Field{Key: key, Type: Uint16Type, Integer: int64(v)}
	case 5:
		v := vrt.Uintptr(id + ".uptr")
		ref.add(key, &vExp{kind: xUint, u: uint64(v)})
		return Field{Key: key, Type: UintptrType, Integer: int64(v)}
	case 6:
		v := vrt.Bool(id + ".b")
		ref.add(key, &vExp{kind: xBool, b: v})
		n := int64(0)
		if v {
			n = 1
		}
		return Field{Key: key, Type: BoolType, Integer: n}
	case 7:
		v := vrt.Float64(id + ".f64")
		ref.add(key, &vExp{kind: xF64, f64: v})
		return Field{Key: key, Type: Float64Type, Integer: int64(math.Float64bits(v))}
	case 8:
		v := vrt.Float32(id + ".f32")
		ref.add(key, &vExp{kind: xF32, f32: v})
		return Field{Key: key, Type: Float32Type, Integer: int64(math.Float32bits(v))}
	case 9:
		v := "s" + vStr1(id+".s") + "\n"
		ref.add(key, xs(v))
		return Field{Key: key, Type: StringType, String: v}
	case 10:
		v := append(vrt.Bytes(id+".bs", 1), '"', 0xff)
		ref.add(key, xs(string(v)))
		return Field{Key: key, Type: ByteStringType, Interface: v}
	case 11:
		v := vrt.Bytes(id+".bin", 2)
		ref.add(key, &vExp{kind: xAnyStr})
		return Field{Key: key, Type: BinaryType, Interface: v}
	case 12:
		re, im := vrt.Float64(id+".re"), vrt.Float64(id+".im")
		ref.add(key, &vExp{kind: xComplex, re: re, im: im, bits: 64})
		return Field{Key: key, Type: Complex128Type, Interface: complex(re, im)}
	case 13:
		re, im := vrt.Float32(id+".re32"), vrt.Float32(id+".im32")
		ref.add(key, &vExp{kind: xComplex, re: float64(re), im: float64(im), bits: 32})
		return Field{Key: key, Type: Complex64Type, Interface: complex(re, im)}
	case 14:
		d := vrt.Int64(id + ".dur")
		ref.add(key, vExpDuration(cfg, d))
		return Field{Key: key, Type: DurationType, Integer: d}
	case 15:
		// symbolic instant as a full time (time.Unix(0, ns) on a symbolic ns divides by 1e9: see VC02TimeNanos),
		// or a concrete boundary instant in nanosecond form
		ref.add(key, vExpTime(cfg))
		if vrt.Choice(id+".timeform", 2) == 0 {
			t, _ := vSymTime(id + ".t")
			return Field{Key: key, Type: TimeFullType, Interface: t}
		}
		ns := []int64{0, -1, 1 << 62}[vrt.Choice(id+".ns", 3)]
		return Field{Key: key, Type: TimeType, Integer: ns, Interface: time.UTC}
	case 16:
		ref.namespace(key)
		return Field{Key: key, Type: NamespaceType}
	case 17:
		return Field{Type: SkipType}
	case 18, 19: // object marshaler (19: fails after writing)
		m := &vObjMarshaler{fail: sel == 19}
		sub, subref := vNewRef()
		m.inner = vInnerFields(id+"o", subref, cfg, depth)
		ref.add(key, sub)
		if m.fail {
			vrt.Tag("fault=object-error")
			ref.add(key+"Error", xs("obj-failed"))
		}
		return Field{Key: key, Type: ObjectMarshalerType, Interface: m}
	case 20, 21: // array marshaler (21: fails after writing)
		m := &vArrMarshaler{fail: sel == 21}
		arr := &vExp{kind: xArr}
		v := vI64(id + ".elem")
		m.ints = []int64{v, 7}
		arr.arr = append(arr.arr, &vExp{kind: xInt, i: v}, &vExp{kind: xInt, i: 7})
		m.strs = []string{"x" + vStr1(id+".es")}
		arr.arr = append(arr.arr, xs(m.strs[0]))
		if depth > 0 {
			o := &vObjMarshaler{}
			sub, subref := vNewRef()
			o.inner = vInnerFields(id+"a", subref, cfg, depth-1)
			m.objs = []*vObjMarshaler{o}
			arr.arr = append(arr.arr, sub)
		}
		ref.add(key, arr)
		if m.fail && vrt.Choice(id+".arrfail", 2) == 1 {
			// the failure comes from an unencodable reflected element at the end of the array
			m.fail, m.reflectFail = false, true
			vrt.Tag("fault=array-reflected-element")
			ref.add(key+"Error", &vExp{kind: xAnyStr})
		} else if m.fail {
			vrt.Tag("fault=array-error")
			ref.add(key+"Error", xs("arr-failed"))
		}
		return Field{Key: key, Type: ArrayMarshalerType, Interface: m}
	case 22: // inline marshaler: members land in the current object
		m := &vObjMarshaler{}
		m.inner = vInnerFields(id+"n", ref, cfg, depth)
		return Field{Key: key, Type: InlineMarshalerType, Interface: m}
	case 23: // Stringer: ok / nil pointer / panicking
		switch vrt.Choice(id+".stringer", 3) {
		case 0:
			s := &vStringer{s: "str" + vrt.String(id+".ss", 1)}
			ref.add(key, xs(s.s))
			return Field{Key: key, Type: StringerType, Interface: s}
		case 1:
			vrt.Tag("fault=nil-stringer")
			ref.add(key, xs("<nil>"))
			return Field{Key: key, Type: StringerType, Interface: (*vStringer)(nil)}
		default:
			vrt.Tag("fault=stringer-panic")
			ref.add(key+"Error", xs("PANIC=stringer-panicked"))
			return Field{Key: key, Type: StringerType, Interface: &vStringer{panic: true}}
		}
	case 24: // errors
		switch vrt.Choice(id+".err", 6) {
		case 5:
			// a group one of whose causes fails to encode, followed by a healthy cause: the failure is
			// reported under <key>Error (what has been written of the causes array so far stays)
			vrt.Tag("fault=error-cause-panic")
			e := vErrGroup{msg: "group", errs: []error{&vErr{msg: "c1"}, &vErr{panic: true}, &vErr{msg: "c3"}}}
			ref.add(key, xs("group"))
			ref.add(key+"Causes", &vExp{kind: xAny})
			ref.add(key+"Error", &vExp{kind: xAnyStr})
			return Field{Key: key, Type: ErrorType, Interface: e}
		case 0:
			e := &vErr{msg: "boom" + vrt.String(id+".em", 1)}
			ref.add(key, xs(e.msg))
			return Field{Key: key, Type: ErrorType, Interface: e}
		case 1:
			vrt.Tag("fault=nil-error-pointer")
			ref.add(key, xs("<nil>"))
			return Field{Key: key, Type: ErrorType, Interface: (*vErr)(nil)}
		case 2:
			vrt.Tag("fault=error-panic")
			ref.add(key+"Error", xs("PANIC=error-panicked"))
			return Field{Key: key, Type: ErrorType, Interface: &vErr{panic: true}}
		case 3:
			e := vVerboseErr{msg: "short", verbose: "long\nform"}
			ref.add(key, xs("short"))
			ref.add(key+"Verbose", xs("long\nform"))
			return Field{Key: key, Type: ErrorType, Interface: e}
		default:
			e := vErrGroup{msg: "group", errs: []error{&vErr{msg: "c1"}, nil, vVerboseErr{msg: "c2", verbose: "c2+"}}}
			ref.add(key, xs("group"))
			c1 := &vExp{kind: xObj, obj: []vExpMember{{key: []byte("error"), val: xs("c1")}}}
			c2 := &vExp{kind: xObj, obj: []vExpMember{{key: []byte("error"), val: xs("c2")}, {key: []byte("errorVerbose"), val: xs("c2+")}}}
			ref.add(key+"Causes", &vExp{kind: xArr, arr: []*vExp{c1, c2}})
			return Field{Key: key, Type: ErrorType, Interface: e}
		}
	case 25: // reflected values
		switch vrt.Choice(id+".refl", 5) {
		case 4: // strings full of JSON punctuation: a value ending in a backslash followed by one with colons and commas
			ref.add(key, &vExp{kind: xObj, obj: []vExpMember{{key: []byte("p"), val: xs(`C:\logs\`)}, {key: []byte("u"), val: xs(`http://h:80/a,b "q": {x}`)}}})
			return Field{Key: key, Type: ReflectType, Interface: map[string]string{"p": `C:\logs\`, "u": `http://h:80/a,b "q": {x}`}}
		case 0:
			ref.add(key, &vExp{kind: xNull})
			return Field{Key: key, Type: ReflectType, Interface: nil}
		case 1:
			ref.add(key, &vExp{kind: xInt, i: 42})
			return Field{Key: key, Type: ReflectType, Interface: 42}
		case 2:
			ref.add(key, &vExp{kind: xObj, obj: []vExpMember{{key: []byte("a"), val: xs("<&>\n")}}})
			return Field{Key: key, Type: ReflectType, Interface: map[string]string{"a": "<&>\n"}}
		default:
			vrt.Tag("fault=unencodable-reflect")
			ref.add(key+"Error", &vExp{kind: xAnyStr})
			return Field{Key: key, Type: ReflectType, Interface: make(chan int)}
		}
	}
	panic("menu")
}

// vInnerFields are the fields a nested marshaler writes: a symbolic int, optionally a namespace with a
// string inside (left open: the encoder must close it), optionally one more nesting level.
func vInnerFields(id string, ref *vRefEnc, cfg *EncoderConfig, depth int) []Field {
	var fs []Field
	v := vI64(id + ".iv")
	ref.add("i"+id, &vExp{kind: xInt, i: v})
	fs = append(fs, Field{Key: "i" + id, Type: Int64Type, Integer: v})
	switch vInnerChoice(id+".inner", 3) {
	case 1:
		ref.namespace("ns" + id)
		fs = append(fs, Field{Key: "ns" + id, Type: NamespaceType})
		s := "v" + vStr1(id+".is")
		ref.add("s"+id, xs(s))
		fs = append(fs, Field{Key: "s" + id, Type: StringType, String: s})
	case 2:
		if depth > 0 {
			fs = append(fs, vMakeField(id+"d", 18+vrt.Choice(id+".nest", 4), "n"+id, ref, cfg, depth-1))
		}
	}
	return fs
}

// ---- encoder menus and their reference renderings

func vNopTimeEncoder(time.Time, PrimitiveArrayEncoder)         {}
func vNopDurationEncoder(time.Duration, PrimitiveArrayEncoder) {}
func vNopLevelEncoder(Level, PrimitiveArrayEncoder)            {}
func vNopCallerEncoder(EntryCaller, PrimitiveArrayEncoder)     {}
func vNopNameEncoder(string, PrimitiveArrayEncoder)            {}

const (
	vTimeNil = iota
	vTimeNop
	vTimeEpoch
	vTimeEpochMillis
	vTimeEpochNanos
	vTimeISO8601
	vTimeRFC3339
	vTimeRFC3339Nano
	vTimeLayout
	vTimeKinds
)

var vTimeSel, vDurSel int

func vPickTimeEncoder(id string) TimeEncoder {
	vTimeSel = vrt.Choice(id+".timeenc", vTimeKinds)
	switch vTimeSel {
	case vTimeNop:
		return vNopTimeEncoder
	case vTimeEpoch:
		return EpochTimeEncoder
	case vTimeEpochMillis:
		return EpochMillisTimeEncoder
	case vTimeEpochNanos:
		return EpochNanosTimeEncoder
	case vTimeISO8601:
		return ISO8601TimeEncoder
	case vTimeRFC3339:
		return RFC3339TimeEncoder
	case vTimeRFC3339Nano:
		return RFC3339NanoTimeEncoder
	case vTimeLayout:
		return TimeEncoderOfLayout("2006-01-02")
	}
	return nil
}

func vExpTime(cfg *EncoderConfig) *vExp {
	switch vTimeSel {
	case vTimeNil, vTimeNop, vTimeEpochNanos:
		return &vExp{kind: xAnyNum} // integer nanoseconds (exact value checked by VC02TimeNanos)
	case vTimeEpoch, vTimeEpochMillis:
		return &vExp{kind: xAnyNum}
	}
	return &vExp{kind: xAnyStr}
}

const (
	vDurNil = iota
	vDurNop
	vDurSeconds
	vDurNanos
	vDurMillis
	vDurString
	vDurKinds
)

func vPickDurationEncoder(id string) DurationEncoder {
	vDurSel = vrt.Choice(id+".durenc", vDurKinds)
	switch vDurSel {
	case vDurNop:
		return vNopDurationEncoder
	case vDurSeconds:
		return SecondsDurationEncoder
	case vDurNanos:
		return NanosDurationEncoder
	case vDurMillis:
		return MillisDurationEncoder
	case vDurString:
		return StringDurationEncoder
	}
	return nil
}

func vExpDuration(cfg *EncoderConfig, d int64) *vExp {
	switch vDurSel {
	case vDurNil, vDurNop, vDurNanos:
		return &vExp{kind: xInt, i: d}
	case vDurMillis:
		return &vExp{kind: xInt, i: d / 1000000}
	case vDurSeconds:
		return &vExp{kind: xAnyNum}
	}
	return &vExp{kind: xAnyStr}
}
