//go:build verif

package zapcore

import (
	"errors"
	"fmt"

	"go.uber.org/multierr"
	vrt "go.uber.org/zap/internal/vrt"
)

// vFailCore is a core whose Write outcome is chosen by the harness.
type vFailCore struct {
	id     int
	err    error
	writes int
}

func (c *vFailCore) Enabled(Level) bool  { return true }
func (c *vFailCore) With([]Field) Core   { return c }
func (c *vFailCore) Check(e Entry, ce *CheckedEntry) *CheckedEntry {
	return ce.AddCore(e, c)
}
func (c *vFailCore) Write(Entry, []Field) error { c.writes++; return c.err }
func (c *vFailCore) Sync() error               { return nil }

type vErrSink struct {
	got [][]byte
}

func (s *vErrSink) Write(p []byte) (int, error) {
	s.got = append(s.got, append([]byte(nil), p...))
	return len(p), nil
}
func (s *vErrSink) Sync() error { return nil }

// Tee of c cores with arbitrary failing subsets, e entries: every core is written once per entry, the
// error output gets one report per failing entry naming every failing core, the call returns.
func vTeeFailures(c, e int) {
	cores := make([]*vFailCore, c)
	var cs []Core
	for i := range cores {
		cores[i] = &vFailCore{id: i}
		if vrt.Choice(fmt.Sprintf("fail%d", i), 2) == 1 {
			cores[i].err = errors.New(fmt.Sprintf("core%d-failed", i))
		}
		cs = append(cs, cores[i])
	}
	tee := NewTee(cs...)
	errOut := &vErrSink{}
	failing := 0
	for _, k := range cores {
		if k.err != nil {
			failing++
		}
	}
	for n := 0; n < e; n++ {
		ce := tee.Check(Entry{Level: InfoLevel, Message: "m"}, nil)
		if ce == nil {
			vrt.Fail("entry-accepted")
			return
		}
		ce.ErrorOutput = errOut
		ce.Write()
		for _, k := range cores {
			vrt.Assert("every-core-written-once-per-entry", k.writes == n+1)
		}
		if failing > 0 {
			vrt.Assert("one-report-per-failing-entry", len(errOut.got) == n+1)
			if len(errOut.got) == n+1 {
				rep := string(errOut.got[n])
				for _, k := range cores {
					if k.err != nil {
						vrt.Assert("report-names-every-failing-core", vContains(rep, k.err.Error()))
					}
				}
			}
		} else {
			vrt.Assert("no-report-without-failure", len(errOut.got) == 0)
		}
	}
	vrt.Cover("done")
}

func vContains(s, sub string) bool {
	for i := 0; i+len(sub) <= len(s); i++ {
		if s[i:i+len(sub)] == sub {
			return true
		}
	}
	return false
}

//verif: prop=C10 bounds="tee of 3 cores, every failing subset, 2 entries, through CheckedEntry.Write with an error output"
func VC10Tee3() { vTeeFailures(3, 2) }

//verif: prop=C10 tier=thorough bounds="tee of 4 cores, every failing subset, 2 entries"
func VC10Tee4() { vTeeFailures(4, 2) }

// ioCore over a multi-syncer with symbolic sink outcomes: write error / short write / sync error are
// returned by Write, every sink still gets the bytes, later entries are unaffected.
//
//verif: prop=C10 bounds="JSON ioCore over a 2-sink multi-WriteSyncer, per-sink outcome in {ok, write error, short write without error, sync error}, 2 entries (second at Fatal level to exercise the sync path)"
func VC10Sinks() {
	sinks := make([]*vSink, 2)
	ws := make([]WriteSyncer, 2)
	for i := range sinks {
		s := &vSink{id: i, n: -1}
		switch vrt.Choice(fmt.Sprintf("outcome%d", i), 4) {
		case 1:
			s.err = errors.New(fmt.Sprintf("werr%d", i))
		case 2:
			s.n = 0 // short write, no error
		case 3:
			s.syncErr = errors.New(fmt.Sprintf("serr%d", i))
		}
		sinks[i], ws[i] = s, s
	}
	core := NewCore(NewJSONEncoder(EncoderConfig{MessageKey: "m", LineEnding: "\n"}), NewMultiWriteSyncer(ws...), DebugLevel)
	for n, lvl := range []Level{InfoLevel, FatalLevel} {
		for _, s := range sinks {
			if s.n != 0 {
				s.n = len(`{"m":"x"}` + "\n")
			}
		}
		err := core.Write(Entry{Level: lvl, Message: "x"}, nil)
		var want []error
		for _, s := range sinks {
			if s.err != nil {
				want = append(want, s.err)
			}
			vrt.Assert("every-sink-gets-every-entry", len(s.got) == n+1)
			if len(s.got) == n+1 {
				vrt.Assert("intact-line", string(s.got[n]) == `{"m":"x"}`+"\n")
			}
		}
		got := multierr.Errors(err)
		vrt.Observe("reported", len(got))
		vrt.Assert("write-errors-reported", len(got) == len(want))
	}
	// (whether a Fatal entry is still synced after a failed write is not part of this property's statement)
}
