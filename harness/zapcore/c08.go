//go:build verif

package zapcore

import (
	"errors"
	"fmt"
	"time"

	vrt "go.uber.org/zap/internal/vrt"
)

// C08: the bytes for (logger, entry, fields) do not depend on what was logged before, nor on which pooled
// object a Get hands back. Method: the observed call B runs first on empty pools (every Get builds a new
// object), then a history A runs on other cores, then B runs again with sync.Pool.Get made nondeterministic
// (any pooled object of that pool, or a new one: every combination is a path). Both outputs of B must be
// byte-identical for all values of B's symbolic inputs.

var vC08Cfg = EncoderConfig{
	MessageKey: "msg", LevelKey: "level", TimeKey: "ts", NameKey: "logger", CallerKey: "caller", FunctionKey: "func", StacktraceKey: "stack",
	LineEnding: "\n", EncodeLevel: LowercaseLevelEncoder, EncodeTime: EpochNanosTimeEncoder, EncodeDuration: NanosDurationEncoder,
	EncodeCaller: ShortCallerEncoder, EncodeName: FullNameEncoder,
}

type vC08FailObj struct{ n int64 }

func (o vC08FailObj) MarshalLogObject(enc ObjectEncoder) error {
	enc.AddInt64("before", o.n)
	enc.OpenNamespace("left-open")
	enc.AddString("s", "partial")
	return errors.New("object failed")
}

type vC08Nested struct{ depth int }

func (o vC08Nested) MarshalLogObject(enc ObjectEncoder) error {
	enc.AddString("pad", "0123456789abcdef0123456789abcdef")
	if o.depth > 0 {
		enc.OpenNamespace("ns")
		return enc.AddObject("inner", vC08Nested{o.depth - 1})
	}
	return nil
}

type vC08Arr struct{}

func (vC08Arr) MarshalLogArray(enc ArrayEncoder) error {
	enc.AppendString("x")
	_ = enc.AppendObject(vC08Nested{1})
	return errors.New("array failed")
}

// vC08History runs history operation sel on cores of its own (their output is not observed).
func vC08History(sel int, id string) {
	sink := &vBytesSink{}
	full := Entry{Level: ErrorLevel, Message: "history " + id, LoggerName: "hist", Time: time.Unix(3, 4),
		Caller: EntryCaller{Defined: true, File: "/a/b/c.go", Line: 7, Function: "pkg.fn"}, Stack: "frame\n\tfile:1"}
	switch sel {
	case 0: // nothing
	case 1: // JSON: long entry, namespace left open, nested objects
		c := NewCore(NewJSONEncoder(vC08Cfg), sink, DebugLevel).With([]Field{{Key: "open", Type: NamespaceType}})
		_ = c.Write(full, []Field{{Key: "o", Type: ObjectMarshalerType, Interface: vC08Nested{2}}, {Key: "tail", Type: NamespaceType}})
	case 2: // JSON: reflected value (the encoder's reflection buffer and json.Encoder are created lazily)
		c := NewCore(NewJSONEncoder(vC08Cfg), sink, DebugLevel)
		_ = c.Write(full, []Field{{Key: "r", Type: ReflectType, Interface: map[string]int{"a": 1}}, {Key: "r2", Type: ReflectType, Interface: []int{1, 2}}})
	case 3: // JSON: marshalers failing midway
		c := NewCore(NewJSONEncoder(vC08Cfg), sink, DebugLevel)
		_ = c.Write(full, []Field{{Key: "bad", Type: ObjectMarshalerType, Interface: vC08FailObj{5}}, {Key: "arr", Type: ArrayMarshalerType, Interface: vC08Arr{}}})
	case 4: // console: all metadata, context and fields
		c := NewCore(NewConsoleEncoder(vC08Cfg), sink, DebugLevel).With([]Field{{Key: "ctx", Type: Int64Type, Integer: 1}})
		_ = c.Write(full, []Field{{Key: "o", Type: ObjectMarshalerType, Interface: vC08Nested{1}}, {Key: "e", Type: ErrorType, Interface: vErrGroup{"grp", []error{errors.New("e1"), errors.New("e2")}}}})
	case 5: // a checked entry fanned out to three cores, with an after-hook
		a, b, c3 := vNewRecCore("ha", DebugLevel), vNewRecCore("hb", DebugLevel), vNewRecCore("hc", DebugLevel)
		ce := NewTee(a, b, c3).Check(full, nil)
		if ce != nil {
			ce = ce.After(full, vC08Hook{})
			ce.Write(Field{Key: "k", Type: Int64Type, Integer: 9})
		}
	case 6: // error group: pooled per-element wrappers
		c := NewCore(NewJSONEncoder(vC08Cfg), sink, DebugLevel)
		_ = c.Write(full, []Field{{Key: "errs", Type: ErrorType, Interface: vErrGroup{"grp", []error{errors.New("e1"), errors.New("e2"), errors.New("e3")}}}})
	case 8: // a sink that fails: the core reports the error (and must still let go of its buffer exactly once)
		c := NewCore(NewJSONEncoder(vC08Cfg), vC08FailSink{}, DebugLevel)
		_ = c.Write(full, []Field{{Key: "k", Type: Int64Type, Integer: 8}})
		if ce := c.Check(full, nil); ce != nil {
			ce.Write()
		}
	case 7: // the same shape as the observed call, other values
		c := NewCore(NewJSONEncoder(vC08Cfg), sink, DebugLevel).With([]Field{{Key: "ctx", Type: StringType, String: "other"}})
		if ce := c.Check(full, nil); ce != nil {
			ce.Write(Field{Key: "k", Type: StringType, String: "other-value-that-is-longer"})
		}
	}
}

type vC08FailSink struct{}

func (vC08FailSink) Write(p []byte) (int, error) { return 0, errors.New("sink failed") }
func (vC08FailSink) Sync() error                 { return nil }

// vC08Hook must run for the history entry it was attached to, never for a later entry that reuses the pooled CheckedEntry.
type vC08Hook struct{}

func (vC08Hook) OnWrite(ce *CheckedEntry, _ []Field) { vrt.Event("history-hook:" + ce.Message) }

const vC08HistoryMenu = 9

// vC08NondetGets: how many of the observed call's first sync.Pool.Get calls are nondeterministic.
const vC08NondetGets = 4

func vC08Case(nHist int, fieldMenu, ctxMenu, histMenu []int) {
	cfg := vC08Cfg
	encKind := vrt.Choice("enc", 2)
	var enc Encoder
	if encKind == 0 {
		enc = NewJSONEncoder(cfg)
	} else {
		enc = NewConsoleEncoder(cfg)
	}
	sink := &vBytesSink{}
	_, ref := vNewRef() // the reference tree is not used here; only the fields are
	sel := fieldMenu[vrt.Choice("field", len(fieldMenu))]
	vLiteNow = true
	ctx := vMakeField("c", ctxMenu[vrt.Choice("ctx", len(ctxMenu))], "ck", ref, &cfg, 0)
	vLiteNow = len(fieldMenu) <= len(vLiteMenu)+1
	f := vMakeField("b", sel, "k", ref, &cfg, 0)
	vLiteNow = false
	core := NewCore(enc, sink, DebugLevel).With([]Field{ctx})
	ent := Entry{Level: WarnLevel, Message: "m" + vC08Letter(), LoggerName: "n", Time: time.Unix(1, 2),
		Caller: EntryCaller{Defined: true, File: "/x/y.go", Line: 3, Function: "p.f"}}
	viaCheck := vrt.Choice("via", 2) == 1
	runB := func() []byte {
		before := len(sink.writes)
		if viaCheck {
			ce := core.Check(ent, nil)
			if ce == nil {
				vrt.Fail("entry-accepted")
				return nil
			}
			ce.Write(f)
		} else {
			_ = core.Write(ent, []Field{f})
		}
		if len(sink.writes) != before+1 {
			vrt.Fail("exactly-one-sink-write-per-call")
			return nil
		}
		return sink.writes[before]
	}
	first := runB() // pools are empty: nothing is reused
	for i := 0; i < nHist; i++ {
		// the history itself reuses pooled objects last-in-first-out; what it leaves in the pools is what matters
		vC08History(histMenu[vrt.Choice(fmt.Sprintf("hist%d", i), len(histMenu))], fmt.Sprint(i))
	}
	vrt.PoolNondetFirst(vrt.Pick(4, 6), vrt.Pick(3, 0))
	vrt.ResetEvents()
	again := runB()
	vrt.PoolNondet(false)
	vrt.Assert("no-hook-of-an-earlier-entry-runs", vCountEvents("history-hook:") == 0)
	if first == nil || again == nil {
		return
	}
	vrt.Observe("line", first)
	vrt.Assert("same-bytes-whatever-was-logged-before-and-whatever-the-pools-hand-back", string(first) == string(again))
	vrt.Cover("done")
}

//verif: prop=C08 bounds="observed call: JSON or console ioCore with 1 context field (number, open namespace or reflected value) and 1 call-site field (lite menu: number, string, namespace, object, array, inline, failing marshalers; plus reflected values), 1 symbolic message letter, through Write or Check+Write; first on empty pools, then after 1 history operation from a 9-entry menu (long nested JSON entry with namespaces left open, reflected values, marshalers failing midway, console entry, 3-core checked entry with after-hook, error group, same-shaped call with other values, entries written to a sink that fails) with each of the first 4 sync.Pool.Get calls of the observed call returning the newest pooled object, the oldest one or a new one (thorough: first 6 Gets, any pooled object), later ones and the history itself reusing last-in-first-out: byte-identical output"
func VC08History1() {
	vC08Case(1, append(append([]int{}, vLiteMenu...), 25), []int{0, 16, 25}, []int{0, 1, 2, 3, 4, 5, 6, 7, 8})
}

//verif: prop=C08 tier=thorough bounds="as VC08History1 with the full 26-template field menu (all inner variants), a numeric context field and the history menu {long nested JSON entry, console entry, same-shaped call}"
func VC08History1Full() { vC08Case(1, vFullMenu, []int{0}, []int{1, 4, 7}) }

//verif: prop=C08 tier=thorough bounds="two history operations from {reflected values, console entry, 3-core checked entry with hook, same-shaped call} before the observed call (lite field menu)"
func VC08History2() { vC08Case(2, vLiteMenu, []int{0, 25}, []int{2, 4, 5, 7}) }

func vCountEvents(prefix string) int {
	n := 0
	for _, e := range vrt.Events() {
		if len(e) >= len(prefix) && e[:len(prefix)] == prefix {
			n++
		}
	}
	return n
}

// Concurrent activity on other loggers, sequentialised at the points that matter for pooled objects: right
// after the k-th sync.Pool.Put performed by the observed call, another goroutine's complete log call runs
// (console or JSON, other content) and its Gets receive the object that was just put back.
func vC08Interference() {
	cfg := vC08Cfg
	encKind := vrt.Choice("enc", 2)
	var enc Encoder
	if encKind == 0 {
		enc = NewJSONEncoder(cfg)
	} else {
		enc = NewConsoleEncoder(cfg)
	}
	sink := &vBytesSink{}
	_, ref := vNewRef()
	vLiteNow = true
	f := vMakeField("b", vLiteMenu[vrt.Choice("field", len(vLiteMenu))], "k", ref, &cfg, 0)
	vLiteNow = false
	core := NewCore(enc, sink, DebugLevel).With([]Field{{Key: "ck", Type: Int64Type, Integer: 1}})
	ent := Entry{Level: WarnLevel, Message: "m" + vC08Letter(), LoggerName: "n", Time: time.Unix(1, 2),
		Caller: EntryCaller{Defined: true, File: "/x/y.go", Line: 3, Function: "p.f"}, Stack: "st"}
	viaCheck := vrt.Choice("via", 2) == 1
	runB := func() []byte {
		before := len(sink.writes)
		if viaCheck {
			if ce := core.Check(ent, nil); ce != nil {
				ce.Write(f)
			}
		} else {
			_ = core.Write(ent, []Field{f})
		}
		if len(sink.writes) != before+1 {
			vrt.Fail("exactly-one-sink-write-per-call")
			return nil
		}
		return sink.writes[before]
	}
	first := runB()
	other := vrt.Choice("other", 3)
	k := vrt.Choice("put", 8)
	vrt.PoolInterfere(k, func() { vC08History([]int{4, 7, 1}[other], "concurrent") })
	again := runB()
	if k >= vrt.PoolPuts() {
		vrt.Assume(false) // the observed call performs fewer Puts than k: nothing was scheduled
	}
	if first == nil || again == nil {
		return
	}
	vrt.Assert("same-bytes-with-another-goroutine-logging-in-between", string(first) == string(again))
	vrt.Cover("done")
}

//verif: prop=C08 bounds="observed call (JSON or console ioCore, 1 context field, 1 call-site field from the lite menu, Write or Check+Write) with another goroutine's complete log call (console entry, same-shaped JSON call, long nested JSON entry) scheduled right after its k-th sync.Pool.Put, k in 0..7: output byte-identical to the undisturbed call. Interference is placed at Put points only (where ownership of a pooled object ends); other preemption points are C04/C09's subject"
func VC08Interference() { vC08Interference() }

// vC08Letter is a symbolic lower-case letter (no escaping classes: the content is still solver-quantified).
func vC08Letter() string {
	c := vrt.Byte("msg")
	vrt.Assume(c >= 'a' && c <= 'z')
	return string([]byte{c})
}

// Pooled checked entries: whatever an earlier user attached (cores, after-hook, error output) is gone when
// the entry is handed out again.
//
//verif: prop=C08 bounds="a checked entry obtained directly from a core (one failing core, no error output, no hook) and written; then 1..2 history entries from {entry with a foreign error output and a failing core, entry with an after-hook, entry fanned out to 3 cores, entry that is checked but never written}; then the first entry again with pool reuse nondeterministic: the same single core is written once, nothing reaches the foreign error output, no earlier hook runs"
func VC08CheckedEntry() {
	fail := &vFailCore{err: errors.New("sink failed")}
	foreign := &vBytesSink{}
	ent := Entry{Level: InfoLevel, Message: "observed"}
	run := func() (writes int, reports int) {
		w0, r0 := fail.writes, len(foreign.writes)
		if ce := fail.Check(ent, nil); ce != nil {
			ce.Write(Field{Key: "k", Type: Int64Type, Integer: 1})
		}
		return fail.writes - w0, len(foreign.writes) - r0
	}
	w1, r1 := run()
	nh := 1 + vrt.Choice("nhist", 2)
	for i := 0; i < nh; i++ {
		hent := Entry{Level: ErrorLevel, Message: "history"}
		switch vrt.Choice(fmt.Sprintf("hist%d", i), 4) {
		case 0: // what zap.Logger does: error output attached, a core that fails
			other := &vFailCore{err: errors.New("other failed")}
			if ce := other.Check(hent, nil); ce != nil {
				ce.ErrorOutput = foreign
				ce.Write()
			}
		case 1:
			a := vNewRecCore("ha", DebugLevel)
			if ce := a.Check(hent, nil); ce != nil {
				ce = ce.After(hent, vC08Hook{})
				ce.Write()
			}
		case 2:
			a, b, c := vNewRecCore("ha", DebugLevel), vNewRecCore("hb", DebugLevel), vNewRecCore("hc", DebugLevel)
			if ce := NewTee(a, b, c).Check(hent, nil); ce != nil {
				ce.ErrorOutput = foreign
				ce.Write()
			}
		case 3:
			a := vNewRecCore("ha", DebugLevel)
			_ = a.Check(hent, nil) // never written: stays out of the pool
		}
	}
	base := len(foreign.writes)
	vrt.ResetEvents()
	vrt.PoolNondetFirst(3, 0)
	w2, _ := run()
	vrt.PoolNondet(false)
	vrt.Observe("writes", w2)
	vrt.Assert("first-use-writes-its-core-once-and-reports-nowhere", w1 == 1 && r1 == 0)
	vrt.Assert("same-core-written-once-again", w2 == 1)
	vrt.Assert("nothing-reaches-an-earlier-users-error-output", len(foreign.writes) == base)
	vrt.Assert("no-hook-of-an-earlier-entry-runs", vCountEvents("history-hook:") == 0)
	vrt.Cover("done")
}

func vHasBytes(b []byte, sub string) bool {
	for i := 0; i+len(sub) <= len(b); i++ {
		if string(b[i:i+len(sub)]) == sub {
			return true
		}
	}
	return false
}

// Caller annotations are values of the entry, whatever program counter they carry and whatever was logged
// before with the same program counter (bridges and wrapping cores build callers of their own).
//
//verif: prop=C08 bounds="JSON or console ioCore with the short or the full caller encoder; 0..2 history entries on another core whose callers share the observed entry's program counter (or not) but name another file and line; then the observed entry (program counter zero, shared or fresh): its line names its own file:line and function, byte-identical to the line a second, history-free encoder configuration would give for the text parts"
func VC08CallerHistory() {
	cfg := vC08Cfg
	fullPath := vrt.Choice("callerenc", 2) == 1
	if fullPath {
		cfg.EncodeCaller = FullCallerEncoder
	}
	console := vrt.Choice("enc", 2) == 1
	mk := func() Encoder {
		if !console {
			return NewJSONEncoder(cfg)
		}
		return NewConsoleEncoder(cfg)
	}
	histSink, sink := &vBytesSink{}, &vBytesSink{}
	hist := NewCore(mk(), histSink, DebugLevel)
	core := NewCore(mk(), sink, DebugLevel)
	pcs := []uintptr{0, 0x4321, 0x8765}
	obsPC := pcs[vrt.Choice("pc", 3)]
	nh := vrt.Choice("nhist", 3)
	for i := 0; i < nh; i++ {
		hpc := pcs[vrt.Choice(fmt.Sprintf("hpc%d", i), 3)]
		e := Entry{Level: InfoLevel, Message: "h", Time: time.Unix(3, 4),
			Caller: EntryCaller{Defined: true, PC: hpc, File: "/a/b/c.go", Line: 7 + i, Function: "pkg.hist"}}
		_ = hist.Write(e, nil)
	}
	ent := Entry{Level: WarnLevel, Message: "m", Time: time.Unix(1, 2),
		Caller: EntryCaller{Defined: true, PC: obsPC, File: "/x/y.go", Line: 3, Function: "p.f"}}
	_ = core.Write(ent, nil)
	if len(sink.writes) != 1 {
		vrt.Fail("exactly-one-sink-write-per-call")
		return
	}
	line := sink.writes[0]
	vrt.Observe("line", line)
	want := "x/y.go:3"
	if fullPath {
		want = "/x/y.go:3"
	}
	vrt.Assert("caller-is-the-entrys-own-whatever-was-logged-before", vHasBytes(line, want) && !vHasBytes(line, "b/c.go"))
	vrt.Assert("function-is-the-entrys-own", vHasBytes(line, "p.f") && !vHasBytes(line, "pkg.hist"))
	vrt.Cover("done")
}
