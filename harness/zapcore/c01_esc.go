//go:build verif

package zapcore

import (
	"unicode/utf8"

	"go.uber.org/zap/internal/bufferpool"
	vrt "go.uber.org/zap/internal/vrt"
)

// vEscape drives the escaping loop on n symbolic bytes, both instantiations.
func vEscape(n int) {
	in := vrt.Bytes("b", n)
	enc := &jsonEncoder{buf: bufferpool.Get()}
	if vrt.Choice("variant", 2) == 0 {
		enc.safeAddByteString(in)
	} else {
		enc.safeAddString(string(in))
	}
	out := enc.buf.Bytes()
	vrt.Observe("out", out)
	// wrap in quotes and hand to the strict JSON string recogniser
	q := append(append([]byte{'"'}, out...), '"')
	v, rest, err := vrt.ParseJSONValue(q, false)
	vrt.Assert("legal-json-string", err == "" && v != nil && v.Kind == vrt.JStr && len(rest) == 0)
	vrt.Assert("valid-utf8", utf8.Valid(out))
	if v != nil {
		vrt.Assert("decodes-to-input-with-invalid-bytes-replaced", string(v.Str) == string(vrt.ReplaceInvalidUTF8(in)))
	}
	vrt.Cover("done")
}

//verif: prop=C01,C02 bounds="escape loop (string and []byte instantiations) on 1 symbolic byte"
func VC01Escape1() { vEscape(1) }

//verif: prop=C01,C02 bounds="escape loop on 2 symbolic bytes"
func VC01Escape2() { vEscape(2) }

//verif: prop=C01,C02 tier=thorough bounds="escape loop on 3 symbolic bytes"
func VC01Escape3() { vEscape(3) }
