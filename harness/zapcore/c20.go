//go:build verif

package zapcore

import (
	vrt "go.uber.org/zap/internal/vrt"
)

var vLevelNames = []struct {
	name string
	lvl  Level
}{
	{"debug", DebugLevel}, {"info", InfoLevel}, {"", InfoLevel}, {"warn", WarnLevel}, {"warning", WarnLevel},
	{"error", ErrorLevel}, {"dpanic", DPanicLevel}, {"panic", PanicLevel}, {"fatal", FatalLevel},
}

func vLowerEq(text []byte, name string) bool {
	if len(text) != len(name) {
		return false
	}
	eq := true
	for i := range text {
		b := text[i]
		if b >= 'A' && b <= 'Z' {
			b += 'a' - 'A'
		}
		eq = eq && b == name[i]
	}
	return eq
}

// vRefLevel is the independent reference: which level (if any) does text name, case-insensitively.
func vRefLevel(text []byte) (Level, bool) {
	for _, n := range vLevelNames {
		if vLowerEq(text, n.name) {
			return n.lvl, true
		}
	}
	return 0, false
}

func vASCII(b []byte) {
	for _, c := range b {
		vrt.Assume(c < 0x80)
	}
}

// Any text of up to 7 ASCII bytes against any prior value of the target.
//
//verif: prop=C20 bounds="level text of n<=8 symbolic ASCII bytes (one more than the longest name; thorough: n<=10), prior target value any int8; non-ASCII text outside the claim"
func VC20Unmarshal() {
	n := vrt.IntRange("len", 0, vrt.Pick(8, 10))
	text := vrt.Bytes("text", n)
	vASCII(text)
	prior := Level(vrt.Int8("prior"))
	l := prior
	err := l.UnmarshalText(text)
	want, ok := vRefLevel(text)
	vrt.Observe("err", err != nil)
	vrt.Observe("level", int8(l))
	if ok {
		vrt.Cover("valid")
		vrt.Assert("valid:accepted", err == nil)
		vrt.Assert("valid:exact-level", l == want)
	} else {
		vrt.Cover("invalid")
		vrt.Assert("invalid:rejected", err != nil)
		vrt.Assert("invalid:target-unchanged", l == prior)
	}
}

//verif: prop=C20 bounds="ParseLevel and Level.Set (flag) on n<=8 symbolic ASCII bytes (thorough: 9)"
func VC20ParseSet() {
	n := vrt.IntRange("len", 0, vrt.Pick(8, 9))
	text := vrt.String("text", n)
	vASCII([]byte(text))
	want, ok := vRefLevel([]byte(text))
	got, err := ParseLevel(text)
	prior := Level(vrt.Int8("prior"))
	l := prior
	serr := l.Set(text)
	if ok {
		vrt.Assert("parse:accepted", err == nil && got == want)
		vrt.Assert("set:accepted", serr == nil && l == want)
	} else {
		vrt.Assert("parse:rejected", err != nil)
		vrt.Assert("set:rejected-unchanged", serr != nil && l == prior)
	}
}

// Every valid level round-trips through its text forms; every one of the 256 values prints.
//
//verif: prop=C20 bounds="all 256 level values (symbolic int8) through String/CapitalString/MarshalText and back"
func VC20RoundTrip() {
	l := Level(vrt.Int8("level"))
	s, c := l.String(), l.CapitalString()
	mt, merr := l.MarshalText()
	vrt.Assert("marshal-no-error", merr == nil)
	vrt.Assert("string-nonempty", len(s) > 0 && len(c) > 0)
	vrt.Assert("marshal-is-string", string(mt) == s)
	if l >= DebugLevel && l <= FatalLevel {
		vrt.Cover("valid")
		var a, b, d Level = -9, -9, -9
		vrt.Assert("lower-roundtrip", a.UnmarshalText([]byte(s)) == nil && a == l)
		vrt.Assert("capital-roundtrip", b.UnmarshalText([]byte(c)) == nil && b == l)
		vrt.Assert("text-roundtrip", d.UnmarshalText(mt) == nil && d == l)
		vrt.Assert("get", l.Get() == interface{}(l))
	} else {
		vrt.Cover("out-of-range")
		var a Level = 3
		vrt.Assert("out-of-range-name-rejected", a.UnmarshalText([]byte(s)) != nil && a == 3)
	}
}
