//go:build verif

package zapcore

import (
	"encoding/base64"
	"math"
	"time"

	vrt "go.uber.org/zap/internal/vrt"
)

// vMatchMap compares the decoded JSON with what the in-memory map encoder recorded for the same fields.
func vMatchMap(where string, got *vrt.JVal, want interface{}) {
	if got == nil {
		vrt.Fail(where + ":missing")
		return
	}
	switch w := want.(type) {
	case map[string]interface{}:
		if got.Kind != vrt.JObj {
			vrt.Fail(where + ":map-vs-nonobject")
			return
		}
		vrt.Assert(where+":same-member-count", len(got.Obj) == len(w))
		for _, m := range got.Obj {
			v, ok := w[string(m.Key)]
			if !ok {
				vrt.Fail(where + ":key-not-in-map-encoder")
				continue
			}
			vMatchMap(where+"."+string(m.Key), m.Val, v)
		}
	case []interface{}:
		if got.Kind != vrt.JArr {
			vrt.Fail(where + ":slice-vs-nonarray")
			return
		}
		vrt.Assert(where+":same-element-count", len(got.Arr) == len(w))
		for i := range w {
			if i < len(got.Arr) {
				vMatchMap(where+"[]", got.Arr[i], w[i])
			}
		}
	case int64:
		vrt.Assert(where+":int64", got.Kind == vrt.JNum && vNumIsInt(got.Num, w))
	case int32:
		vrt.Assert(where+":int32", got.Kind == vrt.JNum && vNumIsInt(got.Num, int64(w)))
	case int8:
		vrt.Assert(where+":int8", got.Kind == vrt.JNum && vNumIsInt(got.Num, int64(w)))
	case int:
		vrt.Assert(where+":int", got.Kind == vrt.JNum && vNumIsInt(got.Num, int64(w)))
	case uint64:
		vrt.Assert(where+":uint64", got.Kind == vrt.JNum && vNumIsUint(got.Num, w))
	case uint16:
		vrt.Assert(where+":uint16", got.Kind == vrt.JNum && vNumIsUint(got.Num, uint64(w)))
	case uintptr:
		vrt.Assert(where+":uintptr", got.Kind == vrt.JNum && vNumIsUint(got.Num, uint64(w)))
	case bool:
		vrt.Assert(where+":bool", got.Kind == vrt.JBool && got.Bool == w)
	case float64:
		vMatchFloat(where, got, w, 64)
	case float32:
		vMatchFloat(where, got, float64(w), 32)
	case string:
		vrt.Assert(where+":string", got.Kind == vrt.JStr && string(got.Str) == string(vrt.ReplaceInvalidUTF8([]byte(w))))
	case []byte:
		vrt.Assert(where+":binary-as-string", got.Kind == vrt.JStr)
	case complex128, complex64:
		vrt.Assert(where+":complex-as-string", got.Kind == vrt.JStr)
	case time.Duration:
		vrt.Assert(where+":duration-nanos", got.Kind == vrt.JNum && vNumIsInt(got.Num, int64(w)))
	case time.Time:
		vrt.Assert(where+":time", got.Kind == vrt.JNum || got.Kind == vrt.JStr)
	case nil:
		vrt.Assert(where+":null", got.Kind == vrt.JNull)
	default:
		// reflected payloads: any JSON value
	}
}

// The JSON tree has the same nesting and values as zapcore.MapObjectEncoder records.
//
//verif: prop=C02 bounds="2 fields (lite menu x full menu, plain distinct keys) encoded by the JSON encoder and by MapObjectEncoder; trees compared member by member (numbers by token value)"
func VC02MapEncoder() {
	cfg := EncoderConfig{LineEnding: "\n"}
	vTimeSel, vDurSel = vTimeNil, vDurNil
	_, ref := vNewRef()
	vLiteNow = true
	f0 := vMakeField("a", vLiteMenu[vrt.Choice("sel0", len(vLiteMenu))], "ka", ref, &cfg, 0)
	vLiteNow = false
	sel := vrt.Choice("sel1", vFieldMenuSize)
	f1 := vMakeField("b", sel, "kb", ref, &cfg, 0)
	if f1.Type == ReflectType {
		if _, isChan := f1.Interface.(chan int); isChan {
			// the map encoder stores reflected values as they are and cannot fail; the JSON encoder reports the
			// failure under kbError: the two records differ by design
			return
		}
	}
	for _, tg := range vrt.SortedTags() {
		if tg == "fault=array-reflected-element" {
			return // same by-design difference, inside an array
		}
	}
	fields := []Field{f0, f1}
	enc := NewJSONEncoder(cfg)
	buf, err := enc.EncodeEntry(Entry{}, fields)
	vrt.Assert("encode-returns-nil", err == nil)
	out := buf.Bytes()
	vrt.Observe("line", out)
	v, perr := vrt.ParseJSONObjectLine(out, "\n", false)
	if perr != "" {
		vrt.Tag("parse=" + perr)
		vrt.Fail("one-valid-json-object-then-line-ending")
		return
	}
	m := NewMapObjectEncoder()
	for _, f := range fields {
		f.AddTo(m)
	}
	vMatchMap("$", v, m.Fields)
}

// Built-in time encoders against the one-line reference formula over a symbolic instant.
//
//verif: prop=C02 bounds="every numeric built-in time encoder (nil, no-op, epoch nanos/millis/seconds) and duration encoder on symbolic (sec,nsec) / int64 durations: emitted token value equals the reference formula; digits are strconv's (trusted)"
func VC02TimeFormulas() {
	cfg := EncoderConfig{TimeKey: "T", LineEnding: "\n"}
	t, tn := vSymTime("t")
	// the integer instant is checked against the independent formula; the float encoders are then compared
	// with the documented division applied to that integer (bit-vector multiplication under a floating-point
	// division is beyond the solvers, see DESIGN.md)
	un := t.UnixNano()
	vrt.Assert("unixnano-is-sec*1e9+nsec", un == tn)
	d := vrt.Int64("d")
	kind := vrt.Choice("kind", 8)
	var wantT, wantD *vExp
	switch kind {
	case 0:
		wantT = &vExp{kind: xInt, i: tn}
	case 1:
		cfg.EncodeTime = vNopTimeEncoder
		wantT = &vExp{kind: xInt, i: tn}
	case 2:
		cfg.EncodeTime = EpochNanosTimeEncoder
		wantT = &vExp{kind: xInt, i: tn}
	case 3:
		cfg.EncodeTime = EpochMillisTimeEncoder
		wantT = &vExp{kind: xF64, f64: float64(un) / float64(time.Millisecond)}
	case 4:
		cfg.EncodeTime = EpochTimeEncoder
		wantT = &vExp{kind: xF64, f64: float64(un) / float64(time.Second)}
	case 5:
		cfg.EncodeDuration = SecondsDurationEncoder
		wantD = &vExp{kind: xF64, f64: float64(d) / float64(time.Second)}
	case 6:
		cfg.EncodeDuration = MillisDurationEncoder
		wantD = &vExp{kind: xInt, i: d / 1000000}
	case 7:
		cfg.EncodeDuration = NanosDurationEncoder
		wantD = &vExp{kind: xInt, i: d}
	}
	if wantT == nil {
		wantT = &vExp{kind: xInt, i: tn}
	}
	if wantD == nil {
		wantD = &vExp{kind: xInt, i: d}
	}
	enc := NewJSONEncoder(cfg)
	buf, _ := enc.EncodeEntry(Entry{Time: t}, []Field{{Key: "d", Type: DurationType, Integer: d}, {Key: "tf", Type: TimeFullType, Interface: t}})
	out := buf.Bytes()
	vrt.Observe("line", out)
	v, perr := vrt.ParseJSONObjectLine(out, "\n", false)
	if perr != "" {
		vrt.Fail("one-valid-json-object-then-line-ending")
		return
	}
	root, ref := vNewRef()
	ref.add("T", wantT)
	ref.add("d", wantD)
	ref.add("tf", wantT)
	vMatch("$", v, root)
}

var _ = math.MaxFloat64

// Long values: lengths around powers of two, where chunked or buffered implementations change behaviour.
//
//verif: prop=C02 bounds="one Binary, ByteString or String field (also as array element) of length in {0,1,2,3,4,63,64,65,255,256,257,258} (thorough: up to 1025): concrete pattern bytes, for the string kinds with one symbolic byte at the first, middle or last position; the decoded JSON string equals base64(payload) for Binary (reference: encoding/base64 itself, trusted) and the payload (invalid UTF-8 replaced) for the others"
func VC02LongValues() {
	lengths := []int{0, 1, 2, 3, 4, 63, 64, 65, 255, 256, 257, 258, 511, 512, 513, 1023, 1024, 1025}
	if vrt.Tier() == 0 {
		lengths = lengths[:12]
	}
	n := lengths[vrt.Choice("len", len(lengths))]
	p := make([]byte, n)
	for i := range p {
		p[i] = byte('a' + i%23)
	}
	kind := vrt.Choice("kind", 4)
	if n > 0 && kind != 0 {
		// (a Binary payload stays concrete: its reference is encoding/base64 itself, computed natively)
		pos := []int{0, n / 2, n - 1}[vrt.Choice("pos", 3)]
		p[pos] = vrt.Byte("b")
	}
	var f Field
	switch kind {
	case 0:
		f = Field{Key: "k", Type: BinaryType, Interface: p}
	case 1:
		f = Field{Key: "k", Type: ByteStringType, Interface: p}
	case 2:
		f = Field{Key: "k", Type: StringType, String: string(p)}
	case 3:
		f = Field{Key: "k", Type: ArrayMarshalerType, Interface: vByteStringsArr{p}}
	}
	enc := NewJSONEncoder(EncoderConfig{LineEnding: "\n"})
	buf, err := enc.EncodeEntry(Entry{}, []Field{{Key: "before", Type: Int64Type, Integer: 1}, f, {Key: "after", Type: Int64Type, Integer: 2}})
	vrt.Assert("encode-returns-nil", err == nil)
	v, perr := vrt.ParseJSONObjectLine(buf.Bytes(), "\n", false)
	if perr != "" {
		vrt.Tag("parse=" + perr)
		vrt.Fail("one-valid-json-object-then-line-ending")
		return
	}
	got := v.Get("k")
	if kind == 3 {
		if got == nil || got.Kind != vrt.JArr || len(got.Arr) != 1 {
			vrt.Fail("array-with-one-element")
			return
		}
		got = got.Arr[0]
	}
	if got == nil || got.Kind != vrt.JStr {
		vrt.Fail("value-is-a-string")
		return
	}
	var want []byte
	if kind == 0 {
		want = []byte(base64.StdEncoding.EncodeToString(p))
	} else {
		want = vrt.ReplaceInvalidUTF8(p)
	}
	vrt.Assert("decoded-value-is-exactly-the-logged-value", string(got.Str) == string(want))
	vrt.Assert("siblings-intact", v.Get("before") != nil && v.Get("after") != nil)
	vrt.Cover("done")
}

type vByteStringsArr [][]byte

func (a vByteStringsArr) MarshalLogArray(enc ArrayEncoder) error {
	for _, b := range a {
		enc.AppendByteString(b)
	}
	return nil
}

// Every numeric Add*/Append* method of the encoder, each with its argument symbolic over its whole type:
// the number that comes out is the number that went in (value of the digit token), for object members and
// array elements alike. MapObjectEncoder and the console encoder's slice encoder record the same values.
type vNumCall struct {
	sel   int
	arr   bool
	want  *vExp
	wantV interface{}
}

func (c *vNumCall) MarshalLogObject(enc ObjectEncoder) error {
	if c.arr {
		return enc.AddArray("a", c)
	}
	c.do(enc, nil)
	return nil
}

func (c *vNumCall) MarshalLogArray(enc ArrayEncoder) error {
	c.do(nil, enc)
	return nil
}

func (c *vNumCall) do(o ObjectEncoder, a ArrayEncoder) {
	switch c.sel {
	case 0:
		v := vrt.Int("n.int")
		c.want, c.wantV = &vExp{kind: xInt, i: int64(v)}, v
		if a != nil {
			a.AppendInt(v)
		} else {
			o.AddInt("k", v)
		}
	case 1:
		v := vrt.Int64("n.i64")
		c.want, c.wantV = &vExp{kind: xInt, i: v}, v
		if a != nil {
			a.AppendInt64(v)
		} else {
			o.AddInt64("k", v)
		}
	case 2:
		v := vrt.Int32("n.i32")
		c.want, c.wantV = &vExp{kind: xInt, i: int64(v)}, v
		if a != nil {
			a.AppendInt32(v)
		} else {
			o.AddInt32("k", v)
		}
	case 3:
		v := vrt.Int16("n.i16")
		c.want, c.wantV = &vExp{kind: xInt, i: int64(v)}, v
		if a != nil {
			a.AppendInt16(v)
		} else {
			o.AddInt16("k", v)
		}
	case 4:
		v := vrt.Int8("n.i8")
		c.want, c.wantV = &vExp{kind: xInt, i: int64(v)}, v
		if a != nil {
			a.AppendInt8(v)
		} else {
			o.AddInt8("k", v)
		}
	case 5:
		v := vrt.Uint("n.uint")
		c.want, c.wantV = &vExp{kind: xUint, u: uint64(v)}, v
		if a != nil {
			a.AppendUint(v)
		} else {
			o.AddUint("k", v)
		}
	case 6:
		v := vrt.Uint64("n.u64")
		c.want, c.wantV = &vExp{kind: xUint, u: v}, v
		if a != nil {
			a.AppendUint64(v)
		} else {
			o.AddUint64("k", v)
		}
	case 7:
		v := vrt.Uint32("n.u32")
		c.want, c.wantV = &vExp{kind: xUint, u: uint64(v)}, v
		if a != nil {
			a.AppendUint32(v)
		} else {
			o.AddUint32("k", v)
		}
	case 8:
		v := vrt.Uint16("n.u16")
		c.want, c.wantV = &vExp{kind: xUint, u: uint64(v)}, v
		if a != nil {
			a.AppendUint16(v)
		} else {
			o.AddUint16("k", v)
		}
	case 9:
		v := vrt.Uint8("n.u8")
		c.want, c.wantV = &vExp{kind: xUint, u: uint64(v)}, v
		if a != nil {
			a.AppendUint8(v)
		} else {
			o.AddUint8("k", v)
		}
	case 10:
		v := vrt.Uintptr("n.uptr")
		c.want, c.wantV = &vExp{kind: xUint, u: uint64(v)}, v
		if a != nil {
			a.AppendUintptr(v)
		} else {
			o.AddUintptr("k", v)
		}
	case 11:
		v := vrt.Float64("n.f64")
		c.want, c.wantV = &vExp{kind: xF64, f64: v}, v
		if a != nil {
			a.AppendFloat64(v)
		} else {
			o.AddFloat64("k", v)
		}
	case 12:
		v := vrt.Float32("n.f32")
		c.want, c.wantV = &vExp{kind: xF32, f32: v}, v
		if a != nil {
			a.AppendFloat32(v)
		} else {
			o.AddFloat32("k", v)
		}
	case 13:
		v := vrt.Bool("n.b")
		c.want, c.wantV = &vExp{kind: xBool, b: v}, v
		if a != nil {
			a.AppendBool(v)
		} else {
			o.AddBool("k", v)
		}
	}
}

const vNumKinds = 14

//verif: prop=C02 bounds="each of the 14 scalar Add* methods and the 14 Append* methods of the JSON encoder (int, int8..64, uint, uint8..64, uintptr, float32/64, bool) with its argument symbolic over its whole type, as an object member and as an array element, in compact and spaced (console context) mode: the emitted number/bool is the argument (token value); the same call recorded by MapObjectEncoder / the slice encoder yields the same Go value"
func VC02Numeric() {
	call := &vNumCall{sel: vrt.Choice("method", vNumKinds), arr: vrt.Choice("array", 2) == 1}
	spaced := vrt.Choice("spaced", 2) == 1
	enc := newJSONEncoder(EncoderConfig{LineEnding: "\n"}, spaced)
	buf, err := enc.EncodeEntry(Entry{}, []Field{{Key: "o", Type: ObjectMarshalerType, Interface: call}})
	vrt.Assert("encode-returns-nil", err == nil)
	v, perr := vrt.ParseJSONObjectLine(buf.Bytes(), "\n", spaced)
	if perr != "" {
		vrt.Tag("parse=" + perr)
		vrt.Fail("one-valid-json-object-then-line-ending")
		return
	}
	got := v.Get("o")
	if got == nil {
		vrt.Fail("object-present")
		return
	}
	if call.arr {
		a := got.Get("a")
		if a == nil || a.Kind != vrt.JArr || len(a.Arr) != 1 {
			vrt.Fail("array-with-one-element")
			return
		}
		vMatch("$.o.a[0]", a.Arr[0], call.want)
	} else {
		k := got.Get("k")
		if k == nil {
			vrt.Fail("member-present")
			return
		}
		vMatch("$.o.k", k, call.want)
	}
	// the in-memory encoders record the very same Go value
	rec := &vNumCall{sel: call.sel, arr: call.arr}
	_ = rec
	m := NewMapObjectEncoder()
	call2 := &vNumReplay{call}
	_ = m.AddObject("o", call2)
	inner, _ := m.Fields["o"].(map[string]interface{})
	var gotV interface{}
	if call.arr {
		if arr, ok := inner["a"].([]interface{}); ok && len(arr) == 1 {
			gotV = arr[0]
		}
	} else {
		gotV = inner["k"]
	}
	vrt.Assert("map-encoder-records-the-same-value", vSameScalar(gotV, call.wantV))
	vrt.Cover("done")
}

// vNumReplay replays the same call with the value already drawn (inputs may be drawn only once).
type vNumReplay struct{ c *vNumCall }

func (r *vNumReplay) MarshalLogObject(enc ObjectEncoder) error {
	if r.c.arr {
		return enc.AddArray("a", r)
	}
	r.put(enc, nil)
	return nil
}
func (r *vNumReplay) MarshalLogArray(enc ArrayEncoder) error { r.put(nil, enc); return nil }
func (r *vNumReplay) put(o ObjectEncoder, a ArrayEncoder) {
	switch v := r.c.wantV.(type) {
	case int:
		if a != nil {
			a.AppendInt(v)
		} else {
			o.AddInt("k", v)
		}
	case int64:
		if a != nil {
			a.AppendInt64(v)
		} else {
			o.AddInt64("k", v)
		}
	case int32:
		if a != nil {
			a.AppendInt32(v)
		} else {
			o.AddInt32("k", v)
		}
	case int16:
		if a != nil {
			a.AppendInt16(v)
		} else {
			o.AddInt16("k", v)
		}
	case int8:
		if a != nil {
			a.AppendInt8(v)
		} else {
			o.AddInt8("k", v)
		}
	case uint:
		if a != nil {
			a.AppendUint(v)
		} else {
			o.AddUint("k", v)
		}
	case uint64:
		if a != nil {
			a.AppendUint64(v)
		} else {
			o.AddUint64("k", v)
		}
	case uint32:
		if a != nil {
			a.AppendUint32(v)
		} else {
			o.AddUint32("k", v)
		}
	case uint16:
		if a != nil {
			a.AppendUint16(v)
		} else {
			o.AddUint16("k", v)
		}
	case uint8:
		if a != nil {
			a.AppendUint8(v)
		} else {
			o.AddUint8("k", v)
		}
	case uintptr:
		if a != nil {
			a.AppendUintptr(v)
		} else {
			o.AddUintptr("k", v)
		}
	case float64:
		if a != nil {
			a.AppendFloat64(v)
		} else {
			o.AddFloat64("k", v)
		}
	case float32:
		if a != nil {
			a.AppendFloat32(v)
		} else {
			o.AddFloat32("k", v)
		}
	case bool:
		if a != nil {
			a.AppendBool(v)
		} else {
			o.AddBool("k", v)
		}
	}
}

// vSameScalar: same dynamic type and same value (floats by bits).
func vSameScalar(a, b interface{}) bool {
	switch x := b.(type) {
	case int:
		y, ok := a.(int)
		return ok && x == y
	case int64:
		y, ok := a.(int64)
		return ok && x == y
	case int32:
		y, ok := a.(int32)
		return ok && x == y
	case int16:
		y, ok := a.(int16)
		return ok && x == y
	case int8:
		y, ok := a.(int8)
		return ok && x == y
	case uint:
		y, ok := a.(uint)
		return ok && x == y
	case uint64:
		y, ok := a.(uint64)
		return ok && x == y
	case uint32:
		y, ok := a.(uint32)
		return ok && x == y
	case uint16:
		y, ok := a.(uint16)
		return ok && x == y
	case uint8:
		y, ok := a.(uint8)
		return ok && x == y
	case uintptr:
		y, ok := a.(uintptr)
		return ok && x == y
	case float64:
		y, ok := a.(float64)
		return ok && math.Float64bits(x) == math.Float64bits(y)
	case float32:
		y, ok := a.(float32)
		return ok && math.Float32bits(x) == math.Float32bits(y)
	case bool:
		y, ok := a.(bool)
		return ok && x == y
	}
	return false
}
