//go:build verif

package zapcore

import (
	"time"

	vrt "go.uber.org/zap/internal/vrt"
)

func vSymTime(name string) (time.Time, int64) {
	sec, nsec := vrt.Int64(name+".sec"), vrt.Int64(name+".nsec")
	vrt.Assume(nsec >= 0)
	vrt.Assume(nsec < 1000000000)
	vrt.Assume(sec > -9000000000) // inside the documented UnixNano range
	vrt.Assume(sec < 9000000000)
	return time.Unix(sec, nsec), sec*1000000000 + nsec
}

// One counter step from an arbitrary state against the window rule of the statement:
// an entry at or after the window end opens a new window and is its first entry.
//
//verif: prop=C11 bounds="one IncCheckReset from arbitrary (resetAt,counter); t=(sec,nsec) symbolic inside the UnixNano range; tick in [0,2^61)"
func VC11CounterStep() {
	var c counter
	r0, n0 := vrt.Int64("resetAt"), vrt.Uint64("count")
	c.resetAt.Store(r0)
	c.counter.Store(n0)
	t, tn := vSymTime("t")
	tick := vrt.Int64("tick")
	vrt.Assume(tick >= 0)
	vrt.Assume(tick < 1<<61) // tn+tick does not overflow
	n := c.IncCheckReset(t, time.Duration(tick))
	wantN, wantReset := uint64(1), tn+tick
	if tn < r0 {
		wantN, wantReset = n0+1, r0
	}
	vrt.Observe("n", n)
	vrt.Assert("ordinal", n == wantN)
	vrt.Assert("counter-state", c.counter.Load() == wantN)
	vrt.Assert("window-end", c.resetAt.Load() == wantReset)
	vrt.Cover("done")
}

type vHookRec struct {
	calls int
	last  SamplingDecision
	ent   Entry
}

// One sampler.Check from an arbitrary counter state: decision, forwarding, hook, budget accounting.
//
//verif: prop=C11 bounds="one Check from an arbitrary counter state; level any int8; inner enabler an arbitrary 256-bit level set; first, thereafter, tick symbolic 64-bit (first,thereafter >= 0 as ints); message fixed"
func VC11CheckStep() {
	inner := vNewRecCore("inner", vNewMask("inner"))
	hook := &vHookRec{}
	first, thereafter := vrt.Int("first"), vrt.Int("thereafter")
	vrt.Assume(first >= 0)
	vrt.Assume(thereafter >= 0)
	tick := vrt.Int64("tick")
	vrt.Assume(tick >= 0)
	vrt.Assume(tick < 1<<61)
	core := NewSamplerWithOptions(inner, time.Duration(tick), first, thereafter, SamplerHook(func(e Entry, d SamplingDecision) {
		hook.calls++
		hook.last = d
		hook.ent = e
	}))
	s := core.(*sampler)
	lvl := Level(vrt.Int8("level"))
	t, tn := vSymTime("t")
	ent := Entry{Level: lvl, Time: t, Message: "msg"}
	inRange := lvl >= DebugLevel && lvl <= FatalLevel
	var r0 int64
	var n0 uint64
	var ctr *counter
	if inRange {
		ctr = s.counts.get(lvl, "msg")
		r0, n0 = vrt.Int64("resetAt"), vrt.Uint64("count")
		ctr.resetAt.Store(r0)
		ctr.counter.Store(n0)
	}
	ce := core.Check(ent, nil)
	forwarded := inner.shared.adds == 1

	if !inner.enab.Enabled(lvl) {
		vrt.Cover("disabled")
		vrt.Assert("disabled:no-forward", ce == nil && inner.shared.checks == 0)
		vrt.Assert("disabled:no-hook", hook.calls == 0)
		if inRange {
			vrt.Assert("disabled:no-budget", ctr.counter.Load() == n0 && ctr.resetAt.Load() == r0)
		}
		return
	}
	if !inRange {
		vrt.Cover("out-of-range")
		vrt.Assert("out-of-range:unsampled", forwarded && ce != nil)
		vrt.Assert("out-of-range:no-hook", hook.calls == 0)
		return
	}
	// reference window transition and decision
	n := uint64(1)
	if tn < r0 {
		n = n0 + 1
	}
	f, m := uint64(first), uint64(thereafter)
	sampled := n <= f || (m != 0 && (n-f)%m == 0)
	vrt.Observe("forwarded", forwarded)
	vrt.Assert("ordinal", ctr.counter.Load() == n)
	vrt.Assert("forwarded-iff-sampled", forwarded == sampled)
	vrt.Assert("one-hook-call", hook.calls == 1)
	if sampled {
		vrt.Cover("sampled")
		vrt.Assert("hook-decision", hook.last == LogSampled)
	} else {
		vrt.Cover("dropped")
		vrt.Assert("hook-decision", hook.last == LogDropped)
		vrt.Assert("dropped:not-written", ce == nil)
	}
}

// fnv32a against an independent FNV-1a reference, and bucket identity.
//
//verif: prop=C11 bounds="messages of <= 3 symbolic bytes; hash compared with an independent FNV-1a; bucket identity for 2 keys of 1 symbolic byte"
func VC11Hash() {
	n := vrt.IntRange("len", 0, 3)
	k := vrt.String("k", n)
	h := uint32(2166136261)
	for i := 0; i < len(k); i++ {
		h = (h ^ uint32(k[i])) * 16777619
	}
	vrt.Assert("fnv1a", fnv32a(k) == h)
}

// vCollide has the same hash bucket as "msg" (fnv32a 3041451778 vs 3766509314, both = 1730 mod 4096).
const vCollide = "m2853"

//verif: prop=C11 bounds="bucket identity over symbolic levels for the message menu {msg, colliding m2853, other}; fnv32a itself is covered by VC11Hash"
func VC11Bucket() {
	cs := newCounters()
	l1, l2 := Level(vrt.Int8("l1")), Level(vrt.Int8("l2"))
	vrt.Assume(l1 >= DebugLevel && l1 <= FatalLevel)
	vrt.Assume(l2 >= DebugLevel && l2 <= FatalLevel)
	msgs := []string{"msg", vCollide, "other"}
	k1, k2 := msgs[vrt.Choice("k1", 3)], msgs[vrt.Choice("k2", 3)]
	if fnv32a("msg")%_countersPerLevel != fnv32a(vCollide)%_countersPerLevel || fnv32a("msg")%_countersPerLevel == fnv32a("other")%_countersPerLevel {
		vrt.Fail("hash-is-not-the-fixed-fnv1a")
	}
	same := cs.get(l1, k1) == cs.get(l2, k2)
	sameBucket := k1 == k2 || (k1 != "other" && k2 != "other")
	vrt.Assert("bucket-identity", same == (l1 == l2 && sameBucket))
}
