//go:build verif

package zapcore

import (
	"fmt"
	"sync"
	"time"

	vrt "go.uber.org/zap/internal/vrt"
)

func vSymTime(name string) (time.Time, int64) {
	sec, nsec := vrt.Int64(name+".sec"), vrt.Int64(name+".nsec")
	vrt.Assume(nsec >= 0)
	vrt.Assume(nsec < 1000000000)
	vrt.Assume(sec > -9000000000) // inside the documented UnixNano range
	vrt.Assume(sec < 9000000000)
	return time.Unix(sec, nsec), sec*1000000000 + nsec
}

// One counter step from an arbitrary state against the window rule of the statement:
// an entry at or after the window end opens a new window and is its first entry.
//
//verif: prop=C11 bounds="one IncCheckReset from arbitrary (resetAt,counter); t=(sec,nsec) symbolic inside the UnixNano range; tick in [0,2^61)"
func VC11CounterStep() {
	var c counter
	r0, n0 := vrt.Int64("resetAt"), vrt.Uint64("count")
	c.resetAt.Store(r0)
	c.counter.Store(n0)
	t, tn := vSymTime("t")
	tick := vrt.Int64("tick")
	vrt.Assume(tick >= 0)
	vrt.Assume(tick < 1<<61) // tn+tick does not overflow
	n := c.IncCheckReset(t, time.Duration(tick))
	wantN, wantReset := uint64(1), tn+tick
	if tn < r0 {
		wantN, wantReset = n0+1, r0
	}
	vrt.Observe("n", n)
	vrt.Assert("ordinal", n == wantN)
	vrt.Assert("counter-state", c.counter.Load() == wantN)
	vrt.Assert("window-end", c.resetAt.Load() == wantReset)
	vrt.Cover("done")
}

type vHookRec struct {
	calls int
	last  SamplingDecision
	ent   Entry
}

// One sampler.Check from an arbitrary counter state: decision, forwarding, hook, budget accounting.
//
//verif: prop=C11 bounds="one Check from an arbitrary counter state; level any int8; inner enabler an arbitrary 256-bit level set; first, thereafter, tick symbolic 64-bit (first,thereafter >= 0 as ints); message fixed"
func VC11CheckStep() {
	inner := vNewRecCore("inner", vNewMask("inner"))
	hook := &vHookRec{}
	first, thereafter := vrt.Int("first"), vrt.Int("thereafter")
	vrt.Assume(first >= 0)
	vrt.Assume(thereafter >= 0)
	tick := vrt.Int64("tick")
	vrt.Assume(tick >= 0)
	vrt.Assume(tick < 1<<61)
	core := NewSamplerWithOptions(inner, time.Duration(tick), first, thereafter, SamplerHook(func(e Entry, d SamplingDecision) {
		hook.calls++
		hook.last = d
		hook.ent = e
	}))
	s := core.(*sampler)
	lvl := Level(vrt.Int8("level"))
	t, tn := vSymTime("t")
	ent := Entry{Level: lvl, Time: t, Message: "msg"}
	inRange := lvl >= DebugLevel && lvl <= FatalLevel
	var r0 int64
	var n0 uint64
	var ctr *counter
	if inRange {
		ctr = s.counts.get(lvl, "msg")
		r0, n0 = vrt.Int64("resetAt"), vrt.Uint64("count")
		ctr.resetAt.Store(r0)
		ctr.counter.Store(n0)
	}
	ce := core.Check(ent, nil)
	forwarded := inner.shared.adds == 1

	if !inner.enab.Enabled(lvl) {
		vrt.Cover("disabled")
		vrt.Assert("disabled:no-forward", ce == nil && inner.shared.checks == 0)
		vrt.Assert("disabled:no-hook", hook.calls == 0)
		if inRange {
			vrt.Assert("disabled:no-budget", ctr.counter.Load() == n0 && ctr.resetAt.Load() == r0)
		}
		return
	}
	if !inRange {
		vrt.Cover("out-of-range")
		vrt.Assert("out-of-range:unsampled", forwarded && ce != nil)
		vrt.Assert("out-of-range:no-hook", hook.calls == 0)
		return
	}
	// reference window transition and decision
	n := uint64(1)
	if tn < r0 {
		n = n0 + 1
	}
	f, m := uint64(first), uint64(thereafter)
	sampled := n <= f || (m != 0 && (n-f)%m == 0)
	vrt.Observe("forwarded", forwarded)
	vrt.Assert("ordinal", ctr.counter.Load() == n)
	vrt.Assert("forwarded-iff-sampled", forwarded == sampled)
	vrt.Assert("one-hook-call", hook.calls == 1)
	if sampled {
		vrt.Cover("sampled")
		vrt.Assert("hook-decision", hook.last == LogSampled)
	} else {
		vrt.Cover("dropped")
		vrt.Assert("hook-decision", hook.last == LogDropped)
		vrt.Assert("dropped:not-written", ce == nil)
	}
}

// fnv32a against an independent FNV-1a reference, and bucket identity.
//
//verif: prop=C11 bounds="messages of <= 3 symbolic bytes; hash compared with an independent FNV-1a; bucket identity for 2 keys of 1 symbolic byte"
func VC11Hash() {
	n := vrt.IntRange("len", 0, 3)
	k := vrt.String("k", n)
	h := uint32(2166136261)
	for i := 0; i < len(k); i++ {
		h = (h ^ uint32(k[i])) * 16777619
	}
	vrt.Assert("fnv1a", fnv32a(k) == h)
}

// vCollide has the same hash bucket as "msg" (fnv32a 3041451778 vs 3766509314, both = 1730 mod 4096).
const vCollide = "m2853"

//verif: prop=C11 bounds="bucket identity through the public API: a sampler with first=1, thereafter=0 and two entries with equal timestamps, levels any two valid levels (symbolic), messages from the menu {msg, three messages colliding with it modulo 4096 (with different residues modulo larger table sizes), other}: the second entry is dropped iff it has the first one's level and bucket; fnv32a itself is covered by VC11Hash"
func VC11Bucket() {
	inner := vNewRecCore("rec", DebugLevel)
	s := NewSamplerWithOptions(inner, time.Second, 1, 0)
	l1, l2 := Level(vrt.Int8("l1")), Level(vrt.Int8("l2"))
	vrt.Assume(l1 >= DebugLevel && l1 <= FatalLevel)
	vrt.Assume(l2 >= DebugLevel && l2 <= FatalLevel)
	// three twins of "msg" in its bucket (hashes equal modulo 4096) whose hashes differ from it by different
	// multiples of 4096 modulo larger table sizes, so that a table indexed by anything but (level, hash mod 4096)
	// separates some of them or merges them across levels
	msgs := []string{"msg", vCollide, "m11897", "m13514", "other"}
	k1, k2 := msgs[vrt.Choice("k1", 5)], msgs[vrt.Choice("k2", 5)]
	for _, tw := range msgs[1:4] {
		if vRefFNV(tw)%4096 != vRefFNV("msg")%4096 {
			vrt.Fail("twins-collide-under-the-reference-hash")
		}
	}
	for i, k := range []string{k1, k2} {
		l := []Level{l1, l2}[i]
		if ce := s.Check(Entry{Level: l, Message: k, Time: time.Unix(50, 0)}, nil); ce != nil {
			ce.Write()
		}
	}
	sameBucket := l1 == l2 && (k1 == k2 || (k1 != "other" && k2 != "other"))
	vrt.Observe("written", len(inner.shared.writes))
	if sameBucket {
		vrt.Assert("bucket-identity", len(inner.shared.writes) == 1)
	} else {
		vrt.Assert("bucket-identity", len(inner.shared.writes) == 2)
	}
}

// vRefFNV is FNV-1a, written down independently.
func vRefFNV(k string) uint32 {
	h := uint32(2166136261)
	for i := 0; i < len(k); i++ {
		h = (h ^ uint32(k[i])) * 16777619
	}
	return h
}

// Histories: k entries on a fresh sampler against a window-based reference kept per bucket.
func vC11History(k int) {
	inner := vNewRecCore("inner", DebugLevel)
	type dec struct {
		msg string
		d   SamplingDecision
	}
	var hooks []dec
	first, thereafter := vrt.Choice("first", 3), []int{0, 2}[vrt.Choice("thereafter", 2)]
	const tick = 10 * time.Second
	root := NewSamplerWithOptions(inner, tick, first, thereafter, SamplerHook(func(e Entry, d SamplingDecision) {
		hooks = append(hooks, dec{e.Message, d})
	}))
	derived := root.With([]Field{{Key: "child", Type: Int64Type, Integer: 1}})
	// reference state per (level, bucket): window end and ordinal
	type win struct {
		end int64
		n   uint64
	}
	ref := map[[2]int]*win{}
	msgs := []string{"msg", vCollide, "other"}
	bucketOf := []int{0, 0, 1} // msg and its colliding twin share a budget
	for i := 0; i < k; i++ {
		id := fmt.Sprintf("e%d", i)
		// (message, level, through the derived core): five representative kinds of entry
		kind := vrt.Choice(id+".kind", 5)
		mi := []int{0, 1, 2, 0, 0}[kind]
		lvl := []Level{InfoLevel, InfoLevel, InfoLevel, WarnLevel, InfoLevel}[kind]
		sec := vrt.Int64(id + ".sec")
		vrt.Assume(sec >= 0 && sec < 1000)
		tn := sec * 1000000000
		ent := Entry{Level: lvl, Message: msgs[mi], Time: time.Unix(sec, 0)}
		core := root
		if kind == 1 || kind == 4 {
			core = derived // derived cores share the parent's budget
		}
		adds, nh := inner.shared.adds, len(hooks)
		ce := core.Check(ent, nil)
		w := ref[[2]int{int(lvl), bucketOf[mi]}]
		if w == nil {
			w = &win{}
			ref[[2]int{int(lvl), bucketOf[mi]}] = w
		}
		if tn >= w.end { // at or after the window's end: a new window opens
			w.end, w.n = tn+int64(tick), 1
		} else {
			w.n++
		}
		f, m := uint64(first), uint64(thereafter)
		sampled := w.n <= f || (m != 0 && (w.n-f)%m == 0)
		vrt.Assert("forwarded-iff-within-first-or-every-mth-of-its-window", (inner.shared.adds == adds+1) == sampled && (ce != nil) == sampled)
		vrt.Assert("one-hook-call-with-the-decision-applied", len(hooks) == nh+1 && hooks[nh].msg == msgs[mi] && (hooks[nh].d == LogSampled) == sampled)
	}
	vrt.Observe("forwarded", inner.shared.adds)
	vrt.Cover("done")
}

//verif: prop=C11 bounds="histories of 3 entries on a fresh sampler (tick 10 s): each entry one of {msg, its hash-colliding twin via a With-derived sampler, another message, msg at Warn, msg via the derived sampler}; first in 0..2, thereafter in {0,2}; timestamp = symbolic whole seconds in [0,1000) in any order (equal and decreasing timestamps included); reference: per level and bucket, a window opened by the first entry at or after the previous end"
func VC11History3() { vC11History(3) }

//verif: prop=C11 tier=thorough bounds="histories of 4 entries (as VC11History3)"
func VC11History4() { vC11History(4) }

// vSafeCore is a goroutine-safe recording leaf.
type vSafeCore struct {
	mu     sync.Mutex
	checks int
}

func (c *vSafeCore) Enabled(Level) bool { return true }
func (c *vSafeCore) With([]Field) Core  { return c }
func (c *vSafeCore) Check(e Entry, ce *CheckedEntry) *CheckedEntry {
	c.mu.Lock()
	c.checks++
	c.mu.Unlock()
	return ce.AddCore(e, c)
}
func (c *vSafeCore) Write(Entry, []Field) error { return nil }
func (c *vSafeCore) Sync() error               { return nil }

//verif: prop=C11 bounds="2 goroutines, one Check each on the same key (the second through a With-derived sampler), first/thereafter in 0..2: (a) inside an already open window the admitted count is exactly the sequential formula for ordinals 2 and 3; (b) with both entries at the window's end (rollover) each entry still gets exactly one decision, one hook call and is forwarded iff sampled; every interleaving of the atomic operations (preemption bound 2); race monitor on"
func VC11Concurrent() {
	inner := &vSafeCore{}
	var hmu sync.Mutex
	sampledHooks, droppedHooks := 0, 0
	first, thereafter := vrt.Choice("first", 3), vrt.Choice("thereafter", 3)
	const tick = 10 * time.Second
	root := NewSamplerWithOptions(inner, tick, first, thereafter, SamplerHook(func(e Entry, d SamplingDecision) {
		hmu.Lock()
		if d == LogSampled {
			sampledHooks++
		} else {
			droppedHooks++
		}
		hmu.Unlock()
	}))
	derived := root.With(nil)
	rollover := vrt.Choice("rollover", 2) == 1
	t0 := time.Unix(100, 0)
	root.Check(Entry{Level: InfoLevel, Message: "m", Time: t0}, nil) // opens the window [100 s, 110 s)
	t := time.Unix(101, 0)
	if rollover {
		t = time.Unix(110, 0) // both at the window's end
	}
	before := inner.checks
	hb := sampledHooks + droppedHooks
	var wg sync.WaitGroup
	wg.Add(2)
	var fa, fb bool
	go func() { defer wg.Done(); fa = root.Check(Entry{Level: InfoLevel, Message: "m", Time: t}, nil) != nil }()
	go func() { defer wg.Done(); fb = derived.Check(Entry{Level: InfoLevel, Message: "m", Time: t}, nil) != nil }()
	wg.Wait()
	forwarded := inner.checks - before
	nf := 0
	if fa {
		nf++
	}
	if fb {
		nf++
	}
	vrt.Assert("one-decision-and-hook-per-entry", sampledHooks+droppedHooks == hb+2)
	vrt.Assert("forwarded-iff-sampled", forwarded == nf)
	if !rollover {
		f, m := uint64(first), uint64(thereafter)
		want := 0
		for _, n := range []uint64{2, 3} {
			if n <= f || (m != 0 && (n-f)%m == 0) {
				want++
			}
		}
		vrt.Assert("admitted-count-exact-inside-an-open-window", forwarded == want)
	}
	vrt.Cover("done")
}

// vDynEnab is a threshold that can move after the sampler was built (an AtomicLevel, in zap's terms).
type vDynEnab struct{ thr *Level }

func (d vDynEnab) Enabled(l Level) bool { return l >= *d.thr }

//verif: prop=C11 bounds="sampler built over a core whose threshold then moves (any valid level to any valid level, as an AtomicLevel does); 4 entries of one message at one level (Debug..Error) inside one window, through the sampler or a With-derived one; first in 0..2, thereafter in {0,2}: entries at a level that is enabled when they are logged are admitted by ordinal and each gets one hook call with the decision applied; entries at a disabled level are not written and get no hook call"
func VC11DynamicLevel() {
	thr := Level(vrt.IntRange("level0", -1, 2))
	inner := vNewRecCore("rec", vDynEnab{&thr})
	first := vrt.IntRange("first", 0, 2)
	thereafter := []int{0, 2}[vrt.Choice("thereafter", 2)]
	sampledHooks, droppedHooks := 0, 0
	root := NewSamplerWithOptions(inner, 10*time.Second, first, thereafter, SamplerHook(func(e Entry, d SamplingDecision) {
		if d == LogSampled {
			sampledHooks++
		} else {
			droppedHooks++
		}
	}))
	var s Core = root
	if vrt.Choice("derived", 2) == 1 {
		s = root.With([]Field{{Key: "k", Type: Int64Type, Integer: 1}})
	}
	thr = Level(vrt.IntRange("level1", -1, 2))
	lvl := Level(vrt.IntRange("entry", -1, 2))
	const K = 4
	for i := 0; i < K; i++ {
		ent := Entry{Level: lvl, Message: "msg", Time: time.Unix(100, int64(i))}
		if ce := s.Check(ent, nil); ce != nil {
			ce.Write()
		}
	}
	want := 0
	if lvl >= thr {
		for n := 1; n <= K; n++ {
			if n <= first || (thereafter != 0 && (n-first)%thereafter == 0) {
				want++
			}
		}
		vrt.Assert("one-hook-call-with-the-decision-applied", sampledHooks == want && droppedHooks == K-want)
	} else {
		vrt.Assert("disabled:no-hook", sampledHooks+droppedHooks == 0)
	}
	vrt.Observe("written", len(inner.shared.writes))
	vrt.Assert("admitted-first-n-then-every-mth", len(inner.shared.writes) == want)
	vrt.Cover("done")
}
