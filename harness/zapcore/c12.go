//go:build verif

package zapcore

import (
	"fmt"
	"time"

	vrt "go.uber.org/zap/internal/vrt"
)

// vTickClock hands the harness the ticker channel.
type vTickClock struct{ ch chan time.Time }

func (c *vTickClock) Now() time.Time                       { return time.Unix(0, 0) }
func (c *vTickClock) NewTicker(time.Duration) *time.Ticker { return &time.Ticker{C: c.ch} }

// vOrderSink checks, at every sink event, that the sink stream is a whole-write-aligned prefix of
// the accepted stream (this is the crash-point quantifier at call granularity).
type vOrderSink struct {
	accepted  [][]byte // accepted (or in-flight) caller writes, in order
	delivered int      // index of the first write not yet in the sink
	lastWasSync bool
	syncs     int
	onSync    chan struct{}
}

func (s *vOrderSink) Write(p []byte) (int, error) {
	s.lastWasSync = false
	// p must be the concatenation of whole pending writes
	rest := p
	for len(rest) > 0 {
		for s.delivered < len(s.accepted) && len(s.accepted[s.delivered]) == 0 {
			s.delivered++
		}
		if s.delivered >= len(s.accepted) {
			vrt.Fail("sink-got-bytes-never-written")
			return len(p), nil
		}
		w := s.accepted[s.delivered]
		if len(w) > len(rest) {
			vrt.Fail("caller-write-split-across-sink-writes")
			return len(p), nil
		}
		vrt.Assert("bytes-in-order-unchanged", string(rest[:len(w)]) == string(w))
		rest = rest[len(w):]
		s.delivered++
	}
	return len(p), nil
}

func (s *vOrderSink) Sync() error {
	s.lastWasSync = true
	s.syncs++
	select {
	case s.onSync <- struct{}{}:
	default:
	}
	return nil
}

func (s *vOrderSink) pendingBytes() int {
	n := 0
	for _, w := range s.accepted[s.delivered:] {
		n += len(w)
	}
	return n
}

func (s *vOrderSink) allDelivered() bool { return s.pendingBytes() == 0 }

// vBufferedOps runs k operations on a fresh BufferedWriteSyncer of Size S.
func vBufferedOps(S, k int) {
	sink := &vOrderSink{onSync: make(chan struct{}, 16)}
	clock := &vTickClock{ch: make(chan time.Time, 1)}
	b := &BufferedWriteSyncer{WS: sink, Size: S, Clock: clock, FlushInterval: time.Second}
	stopped := false
	started := false
	for i := 0; i < k; i++ {
		switch vrt.Choice(fmt.Sprintf("op%d", i), 4) {
		case 0: // Write
			L := vrt.Choice(fmt.Sprintf("len%d", i), S+3)
			p := vrt.Bytes(fmt.Sprintf("w%d", i), L)
			sink.accepted = append(sink.accepted, p)
			n, err := b.Write(p)
			started = true
			vrt.Assert("write-accepts-all", n == L && err == nil)
			vrt.Assert("at-most-size-held-back", sink.pendingBytes() <= S)
		case 1: // Sync
			vrt.Assert("sync-nil", b.Sync() == nil)
			vrt.Assert("sync:everything-delivered", sink.allDelivered())
			vrt.Assert("sync:sink-synced-last", sink.lastWasSync)
		case 2: // tick
			if !started || stopped {
				continue // no flush goroutine is listening
			}
			for len(sink.onSync) > 0 {
				<-sink.onSync
			}
			clock.ch <- time.Unix(1, 0)
			<-sink.onSync // the tick has been processed
			vrt.Assert("tick:everything-delivered", sink.allDelivered())
			vrt.Assert("tick:sink-synced-last", sink.lastWasSync)
		case 3: // Stop (possibly repeated)
			vrt.Assert("stop-nil", b.Stop() == nil)
			if started {
				stopped = true
				vrt.Assert("stop:everything-delivered", sink.allDelivered())
				vrt.Assert("stop:sink-synced-last", sink.lastWasSync)
				vrt.Assert("stop:flush-goroutine-exited", vrt.LiveGoroutines() == 0)
			}
		}
	}
	vrt.Cover("done")
	if !stopped {
		b.Stop()
		vrt.Assert("final-stop:everything-delivered", sink.allDelivered())
		vrt.Assert("final-stop:flush-goroutine-exited", vrt.LiveGoroutines() == 0)
	}
}

//verif: prop=C12,C13 bounds="Size S in 1..3, 3 operations from {Write(0..S+2 symbolic bytes), Sync, tick, Stop}; flush goroutine scheduled at every synchronisation point (preemption bound 2)"
func VC12Ops3() { vBufferedOps(vrt.IntRange("S", 1, 3), 3) }

//verif: prop=C12 tier=thorough bounds="Size S in 1..4, 4 operations"
func VC12Ops4() { vBufferedOps(vrt.IntRange("S", 1, 4), 4) }
