//go:build verif

package zapcore

import (
	"fmt"
	"sync"
	"time"

	vrt "go.uber.org/zap/internal/vrt"
)

// vTickClock hands the harness the ticker channel.
type vTickClock struct{ ch chan time.Time }

func (c *vTickClock) Now() time.Time                       { return time.Unix(0, 0) }
func (c *vTickClock) NewTicker(time.Duration) *time.Ticker { return &time.Ticker{C: c.ch} }

// vOrderSink checks, at every sink event, that the sink stream is a whole-write-aligned prefix of
// the accepted stream (this is the crash-point quantifier at call granularity).
type vOrderSink struct {
	accepted  [][]byte // accepted (or in-flight) caller writes, in order
	delivered int      // index of the first write not yet in the sink
	lastWasSync bool
	syncs     int
	onSync    chan struct{}
}

func (s *vOrderSink) Write(p []byte) (int, error) {
	s.lastWasSync = false
	// p must be the concatenation of whole pending writes
	rest := p
	for len(rest) > 0 {
		for s.delivered < len(s.accepted) && len(s.accepted[s.delivered]) == 0 {
			s.delivered++
		}
		if s.delivered >= len(s.accepted) {
			vrt.Fail("sink-got-bytes-never-written")
			return len(p), nil
		}
		w := s.accepted[s.delivered]
		if len(w) > len(rest) {
			vrt.Fail("caller-write-split-across-sink-writes")
			return len(p), nil
		}
		vrt.Assert("bytes-in-order-unchanged", string(rest[:len(w)]) == string(w))
		rest = rest[len(w):]
		s.delivered++
	}
	return len(p), nil
}

func (s *vOrderSink) Sync() error {
	s.lastWasSync = true
	s.syncs++
	select {
	case s.onSync <- struct{}{}:
	default:
	}
	return nil
}

func (s *vOrderSink) pendingBytes() int {
	n := 0
	for _, w := range s.accepted[s.delivered:] {
		n += len(w)
	}
	return n
}

func (s *vOrderSink) allDelivered() bool { return s.pendingBytes() == 0 }

// vBufferedOps runs k operations on a fresh BufferedWriteSyncer of Size S.
func vBufferedOps(S, k int) {
	sink := &vOrderSink{onSync: make(chan struct{}, 16)}
	clock := &vTickClock{ch: make(chan time.Time, 1)}
	b := &BufferedWriteSyncer{WS: sink, Size: S, Clock: clock, FlushInterval: time.Second}
	stopped := false
	started := false
	for i := 0; i < k; i++ {
		switch vrt.Choice(fmt.Sprintf("op%d", i), 4) {
		case 0: // Write
			if stopped {
				vrt.Tag("history=write-after-stop")
			}
			L := vrt.Choice(fmt.Sprintf("len%d", i), S+3)
			p := vrt.Bytes(fmt.Sprintf("w%d", i), L)
			sink.accepted = append(sink.accepted, p)
			n, err := b.Write(p)
			started = true
			vrt.Assert("write-accepts-all", n == L && err == nil)
			vrt.Assert("at-most-size-held-back", sink.pendingBytes() <= S)
		case 1: // Sync
			vrt.Assert("sync-nil", b.Sync() == nil)
			vrt.Assert("sync:everything-delivered", sink.allDelivered())
			vrt.Assert("sync:sink-synced-last", sink.lastWasSync)
		case 2: // tick
			if !started || stopped {
				continue // no flush goroutine is listening
			}
			for len(sink.onSync) > 0 {
				<-sink.onSync
			}
			clock.ch <- time.Unix(1, 0)
			<-sink.onSync // the tick has been processed
			vrt.Assert("tick:everything-delivered", sink.allDelivered())
			vrt.Assert("tick:sink-synced-last", sink.lastWasSync)
		case 3: // Stop (possibly repeated)
			vrt.Assert("stop-nil", b.Stop() == nil)
			if started {
				stopped = true
				vrt.Assert("stop:everything-delivered", sink.allDelivered())
				vrt.Assert("stop:sink-synced-last", sink.lastWasSync)
				vrt.Assert("stop:flush-goroutine-exited", vrt.LiveGoroutines() == 0)
			}
		}
	}
	vrt.Cover("done")
	// Stop may be called repeatedly; after it has completed everything accepted before it is in the sink
	b.Stop()
	vrt.Assert("final-stop:everything-delivered", sink.allDelivered())
	vrt.Assert("final-stop:flush-goroutine-exited", vrt.LiveGoroutines() == 0)
}

//verif: prop=C12 bounds="Size S in 1..3, 3 operations from {Write(0..S+2 symbolic bytes), Sync, tick, Stop}; flush goroutine scheduled at every synchronisation point (preemption bound 2)"
func VC12Ops3() { vBufferedOps(vrt.IntRange("S", 1, 3), 3) }

//verif: prop=C12 tier=thorough bounds="Size S in 1..4, 4 operations"
func VC12Ops4() { vBufferedOps(vrt.IntRange("S", 1, 4), 4) }

// vSerialSink records the stream and the boundaries of the writes it receives. The BufferedWriteSyncer must
// serialise every access to the wrapped syncer itself; the sink only notices when it does not.
type vSerialSink struct {
	inside int
	stream []byte
	cuts   []int // stream length after each sink write
	syncs  int
	onSync chan struct{}
}

func (s *vSerialSink) Write(p []byte) (int, error) {
	s.inside++
	vrt.Assert("wrapped-syncer-never-entered-twice", s.inside == 1)
	vrt.Yield()
	s.stream = append(s.stream, p...)
	s.cuts = append(s.cuts, len(s.stream))
	s.inside--
	return len(p), nil
}

func (s *vSerialSink) Sync() error {
	s.inside++
	vrt.Assert("wrapped-syncer-never-entered-twice", s.inside == 1)
	vrt.Yield()
	s.syncs++
	s.inside--
	if s.onSync != nil {
		select {
		case s.onSync <- struct{}{}:
		default:
		}
	}
	return nil
}

// vBytesIn returns n symbolic bytes constrained to [lo, lo+7]: writes of different callers stay distinguishable.
func vBytesIn(name string, n int, lo byte) []byte {
	b := vrt.Bytes(name, n)
	for _, c := range b {
		vrt.Assume(c >= lo && c <= lo+7)
	}
	return b
}

//verif: prop=C12 bounds="Size 4; one accepted write (1..3 bytes, buffered) followed by two goroutines: Write(1..6 symbolic bytes) alongside Stop, Sync, another 1-byte Write or a flush tick (whose sync is awaited); then Sync. The write accepted before the others began comes first at the sink, every caller write arrives exactly once and contiguous, every sink write ends at a caller-write boundary, the wrapped syncer is never entered twice; every interleaving of synchronisation operations (preemption bound 2); race monitor on"
func VC12Concurrent() {
	sink := &vSerialSink{}
	clock := &vTickClock{ch: make(chan time.Time, 1)}
	const S = 4
	b := &BufferedWriteSyncer{WS: sink, Size: S, Clock: clock, FlushInterval: time.Second}
	first := vBytesIn("a", vrt.IntRange("la", 1, 3), 'a')
	n, err := b.Write(first)
	vrt.Assert("write-accepts-all", n == len(first) && err == nil)
	second := vBytesIn("b", vrt.IntRange("lb", 1, 6), 'i')
	other := vrt.Choice("other", 4)
	if other == 3 {
		sink.onSync = make(chan struct{}, 8)
	}
	var third []byte
	if other == 2 {
		third = vBytesIn("c", 1, 'q')
	}
	var wg sync.WaitGroup
	wg.Add(2)
	go func() {
		defer wg.Done()
		k, werr := b.Write(second)
		vrt.Assert("write-accepts-all", k == len(second) && werr == nil)
	}()
	go func() {
		defer wg.Done()
		switch other {
		case 0:
			vrt.Assert("stop-nil", b.Stop() == nil)
		case 1:
			vrt.Assert("sync-nil", b.Sync() == nil)
		case 2:
			k, werr := b.Write(third)
			vrt.Assert("write-accepts-all", k == 1 && werr == nil)
		case 3:
			// a flush tick arrives while the other goroutine may be inside Write: once it has been
			// processed the sink has been synced (waiting for that sync here; a dropped tick is a deadlock)
			clock.ch <- time.Unix(1, 0)
			<-sink.onSync
		}
	}()
	wg.Wait()
	vrt.Assert("sync-nil", b.Sync() == nil)
	// the stream is first, then the two concurrent writes in either order, each whole
	o1 := string(first) + string(second) + string(third)
	o2 := string(first) + string(third) + string(second)
	got := string(sink.stream)
	if got != o1 && got != o2 {
		vrt.Fail("every-write-once-whole-and-after-those-accepted-before-it")
		return
	}
	b1 := map[int]bool{len(first): true, len(first) + len(second): true, len(o1): true}
	if got != o1 {
		b1 = map[int]bool{len(first): true, len(first) + len(third): true, len(o2): true}
	}
	for _, c := range sink.cuts {
		vrt.Assert("sink-writes-end-at-caller-write-boundaries", b1[c])
	}
	vrt.Assert("stop-nil", b.Stop() == nil)
	vrt.Assert("flush-goroutine-exited", vrt.LiveGoroutines() == 0)
	vrt.Cover("done")
}

//verif: prop=C12 bounds="Size 4; one buffered write (1..3 bytes), optionally a flush tick pending, then Stop from two goroutines at once and a third Stop afterwards: every Stop returns nil without panicking, the write has reached the sink exactly once and the sink was synced, the flush goroutine has exited; every interleaving of synchronisation operations (preemption bound 2); race monitor on"
func VC12Stops() {
	sink := &vSerialSink{}
	clock := &vTickClock{ch: make(chan time.Time, 1)}
	b := &BufferedWriteSyncer{WS: sink, Size: 4, Clock: clock, FlushInterval: time.Second}
	first := vBytesIn("a", vrt.IntRange("la", 1, 3), 'a')
	n, err := b.Write(first)
	vrt.Assert("write-accepts-all", n == len(first) && err == nil)
	if vrt.Choice("tick", 2) == 1 {
		clock.ch <- time.Unix(1, 0)
	}
	var wg sync.WaitGroup
	wg.Add(2)
	for g := 0; g < 2; g++ {
		go func() {
			defer wg.Done()
			vrt.Assert("stop-nil", b.Stop() == nil)
		}()
	}
	wg.Wait()
	vrt.Assert("stop-nil", b.Stop() == nil)
	vrt.Assert("stop:everything-delivered", string(sink.stream) == string(first))
	vrt.Assert("stop:sink-synced-last", sink.syncs > 0)
	vrt.Assert("flush-goroutine-exited", vrt.LiveGoroutines() == 0)
	vrt.Cover("done")
}

//verif: prop=C12 bounds="Size in {4097, 5000, 8191, 8193, 12000} (beyond a memory page and not page multiples), writes of 100, 1000 or 4096 bytes (first byte symbolic) until more than Size + 2 writes' worth was accepted, no Sync or tick: after every write, accepted minus received by the sink never exceeds Size, the sink stream is a prefix of the accepted stream cut at a write boundary; then Stop delivers the rest"
func VC12LargeSize() {
	vrt.Budget(60000000)
	sink := &vSerialSink{}
	size := []int{4097, 5000, 8191, 8193, 12000}[vrt.Choice("size", 5)]
	chunk := []int{100, 1000, 4096}[vrt.Choice("chunk", 3)]
	b := &BufferedWriteSyncer{WS: sink, Size: size, Clock: vNoTickClock12{}, FlushInterval: time.Hour}
	accepted := 0
	first := vrt.Byte("b0")
	boundaries := map[int]bool{0: true}
	for accepted <= size+2*chunk {
		p := make([]byte, chunk)
		for i := range p {
			p[i] = byte('a' + (accepted/chunk)%26)
		}
		if accepted == 0 {
			p[0] = first
		}
		n, err := b.Write(p)
		vrt.Assert("write-accepts-all", n == chunk && err == nil)
		accepted += chunk
		boundaries[accepted] = true
		vrt.Assert("never-more-than-size-held-back", accepted-len(sink.stream) <= size)
		vrt.Assert("sink-writes-end-at-caller-write-boundaries", boundaries[len(sink.stream)])
	}
	vrt.Assert("stop-nil", b.Stop() == nil)
	vrt.Assert("stop:everything-delivered", len(sink.stream) == accepted && sink.stream[0] == first)
	vrt.Cover("done")
}

type vNoTickClock12 struct{}

func (vNoTickClock12) Now() time.Time                        { return time.Unix(0, 0) }
func (vNoTickClock12) NewTicker(time.Duration) *time.Ticker { return &time.Ticker{C: make(chan time.Time)} }
