//go:build verif

package zapcore

import (
	"errors"
	"fmt"
	"sync"
	"time"

	"go.uber.org/multierr"
	vrt "go.uber.org/zap/internal/vrt"
)

// vSink is a WriteSyncer whose outcome is chosen by the harness (symbolic count, optional error).
type vSink struct {
	id      int
	n       int
	err     error
	syncErr error
	got     [][]byte
	syncs   int
}

func (s *vSink) Write(p []byte) (int, error) {
	s.got = append(s.got, append([]byte(nil), p...))
	vrt.Event(fmt.Sprintf("write%d", s.id))
	return s.n, s.err
}

func (s *vSink) Sync() error {
	s.syncs++
	vrt.Event(fmt.Sprintf("sync%d", s.id))
	return s.syncErr
}

func vMultiSinks(c int, plen int) []*vSink {
	sinks := make([]*vSink, c)
	for i := range sinks {
		s := &vSink{id: i, n: vrt.Int(fmt.Sprintf("n%d", i))}
		vrt.Assume(s.n >= 0)
		vrt.Assume(s.n <= plen)
		switch vrt.Choice(fmt.Sprintf("werr%d", i), 2) {
		case 1:
			s.err = errors.New(fmt.Sprintf("werr%d", i))
		}
		switch vrt.Choice(fmt.Sprintf("serr%d", i), 2) {
		case 1:
			s.syncErr = errors.New(fmt.Sprintf("serr%d", i))
		}
		sinks[i] = s
	}
	return sinks
}

func vCheckMulti(c int) {
	payload := vrt.Bytes("p", 3)
	sinks := vMultiSinks(c, len(payload))
	ws := make([]WriteSyncer, c)
	for i, s := range sinks {
		ws[i] = s
	}
	m := NewMultiWriteSyncer(ws...)
	n, err := m.Write(payload)

	// smallest count any sink reported
	want := sinks[0].n
	for _, s := range sinks[1:] {
		if s.n < want {
			want = s.n
		}
	}
	vrt.Observe("n", n)
	vrt.Assert("min-count", n == want)
	// identical bytes to every sink, exactly once, regardless of earlier failures
	for _, s := range sinks {
		vrt.Assert("each-sink-written-once", len(s.got) == 1)
		if len(s.got) == 1 {
			vrt.Assert("identical-bytes", string(s.got[0]) == string(payload))
		}
	}
	// all errors, in order
	var wantErrs []error
	for _, s := range sinks {
		if s.err != nil {
			wantErrs = append(wantErrs, s.err)
		}
	}
	gotErrs := multierr.Errors(err)
	vrt.Assert("all-errors", len(gotErrs) == len(wantErrs))
	for i := range wantErrs {
		if i < len(gotErrs) {
			vrt.Assert("error-order", gotErrs[i] == wantErrs[i])
		}
	}
	// Sync reaches every sink and aggregates
	serr := m.Sync()
	var wantS []error
	for _, s := range sinks {
		vrt.Assert("sync-reaches-all", s.syncs == 1)
		if s.syncErr != nil {
			wantS = append(wantS, s.syncErr)
		}
	}
	gotS := multierr.Errors(serr)
	vrt.Assert("sync-errors", len(gotS) == len(wantS))
	vrt.Cover("done")
}

//verif: prop=C13 bounds="multi-WriteSyncer of 2 sinks, per-sink count symbolic in [0,len(p)], write/sync error present or not, payload 3 symbolic bytes"
func VC13Multi2() { vCheckMulti(2) }

//verif: prop=C13 bounds="multi-WriteSyncer of 3 sinks (as VC13Multi2)"
func VC13Multi3() { vCheckMulti(3) }

//verif: prop=C13 tier=thorough bounds="multi-WriteSyncer of 4 sinks"
func VC13Multi4() { vCheckMulti(4) }

type vPlainWriter struct {
	n   int
	err error
	got []byte
}

func (w *vPlainWriter) Write(p []byte) (int, error) {
	w.got = append([]byte(nil), p...)
	return w.n, w.err
}

// AddSync and Lock relay the wrapped writer's result unchanged.
//
//verif: prop=C13 bounds="AddSync(io.Writer | WriteSyncer) and Lock(ws): wrapped (n, err) with n any int and err present or not relayed unchanged; AddSync keeps an existing Sync; Lock is idempotent"
func VC13Relay() {
	payload := vrt.Bytes("p", 2)
	n := vrt.Int("n")
	var werr error
	if vrt.Choice("err", 2) == 1 {
		werr = errors.New("w")
	}
	switch vrt.Choice("wrapper", 3) {
	case 0: // AddSync over a plain writer: no-op Sync added
		w := &vPlainWriter{n: n, err: werr}
		ws := AddSync(w)
		k, err := ws.Write(payload)
		vrt.Assert("addsync-relays", k == n && err == werr && string(w.got) == string(payload))
		vrt.Assert("addsync-noop-sync", ws.Sync() == nil)
	case 1: // AddSync over something that already syncs: kept as is
		s := &vSink{n: n, err: werr, syncErr: errors.New("s")}
		ws := AddSync(s)
		k, err := ws.Write(payload)
		vrt.Assert("addsync-keeps-writesyncer", k == n && err == werr)
		vrt.Assert("addsync-keeps-existing-sync", ws.Sync() == s.syncErr && s.syncs == 1)
	case 2:
		s := &vSink{n: n, err: werr, syncErr: errors.New("s")}
		ws := Lock(s)
		k, err := ws.Write(payload)
		vrt.Assert("lock-relays-write", k == n && err == werr && len(s.got) == 1 && string(s.got[0]) == string(payload))
		vrt.Assert("lock-relays-sync", ws.Sync() == s.syncErr && s.syncs == 1)
		vrt.Assert("lock-idempotent", Lock(ws) == ws)
	}
}

// vReentrySink detects two goroutines inside the sink at once.
type vInsideCounter struct{ inside int }

// vReentrySink detects two goroutines inside the locked region (any of its sinks) at once.
type vReentrySink struct {
	c      *vInsideCounter
	writes int
	syncs  int
}

func (s *vReentrySink) Write(p []byte) (int, error) {
	s.c.inside++
	vrt.Assert("writes-and-syncs-mutually-exclusive", s.c.inside == 1)
	vrt.Yield()
	s.writes++
	s.c.inside--
	return len(p), nil
}
func (s *vReentrySink) Sync() error {
	s.c.inside++
	vrt.Assert("writes-and-syncs-mutually-exclusive", s.c.inside == 1)
	vrt.Yield()
	s.syncs++
	s.c.inside--
	return nil
}

//verif: prop=C13 bounds="two goroutines doing Write || Write and Write || Sync through Lock(sink), Lock(Lock(sink)), Lock(multi(s1,s2)) and Lock(multi(Lock(s1),Lock(s2))): at most one goroutine is inside any of the sinks at a time; the sink yields inside its critical section; every schedule at synchronisation points (preemption bound 2); happens-before race monitor on"
func VC13LockExclusive() {
	shared := &vInsideCounter{}
	s1, s2 := &vReentrySink{c: shared}, &vReentrySink{c: shared}
	var ws WriteSyncer
	nsinks := 1
	switch vrt.Choice("topology", 4) {
	case 0:
		ws = Lock(s1)
	case 1:
		ws = Lock(Lock(s1))
	case 2:
		ws, nsinks = Lock(NewMultiWriteSyncer(s1, s2)), 2
	case 3: // every sink locked on its own as well: the outer Lock must still serialise the whole fan-out
		ws, nsinks = Lock(NewMultiWriteSyncer(Lock(s1), Lock(s2))), 2
	}
	var wg sync.WaitGroup
	wg.Add(2)
	second := vrt.Choice("second", 2)
	go func() { defer wg.Done(); ws.Write([]byte("a")) }()
	go func() {
		defer wg.Done()
		if second == 0 {
			ws.Write([]byte("b"))
		} else {
			ws.Sync()
		}
	}()
	wg.Wait()
	vrt.Assert("all-operations-ran", s1.writes+s1.syncs+s2.writes+s2.syncs == 2*nsinks)
}

//verif: prop=C13 bounds="BufferedWriteSyncer of Size 1..4 over a recording sink: two writes of 0..6 symbolic bytes each (buffered, exactly fitting, larger than the buffer) report (len(p), nil) and leave the caller's slice untouched; over a sink that returns short counts (with or without an error) a short count is never reported without an error"
func VC13Buffered() {
	S := vrt.IntRange("S", 1, 4)
	sink := &vBytesSink{}
	// the wrapped sink may itself break the contract (a short count without an error) or fail
	misbehave := vrt.Choice("sink", 3)
	var ws WriteSyncer = sink
	switch misbehave {
	case 1:
		ws = vShortSink{sink, nil}
	case 2:
		ws = vShortSink{sink, errors.New("sink failed")}
	}
	b := &BufferedWriteSyncer{WS: ws, Size: S, FlushInterval: time.Hour, Clock: &vTickClock{ch: make(chan time.Time, 1)}}
	for i := 0; i < 2; i++ {
		L := vrt.IntRange(fmt.Sprintf("len%d", i), 0, 6)
		p := vrt.Bytes(fmt.Sprintf("p%d", i), L)
		orig := string(p)
		n, err := b.Write(p)
		if misbehave == 0 {
			vrt.Assert("reports-len-p-and-nil", n == L && err == nil)
		} else {
			vrt.Assert("count-within-0-and-len-p", n >= 0 && n <= L)
			vrt.Assert("short-count-comes-with-an-error", n == L || err != nil)
		}
		vrt.Assert("caller-buffer-untouched", string(p) == orig)
	}
	if misbehave == 0 {
		vrt.Assert("stop-nil", b.Stop() == nil)
	} else {
		_ = b.Stop()
	}
	vrt.Observe("sink-writes", len(sink.writes))
}

// vShortSink accepts all but the last byte of any write longer than one byte, with the given error (possibly none).
type vShortSink struct {
	to  *vBytesSink
	err error
}

func (s vShortSink) Write(p []byte) (int, error) {
	if len(p) > 1 {
		n, _ := s.to.Write(p[:len(p)-1])
		return n, s.err
	}
	return s.to.Write(p)
}
func (s vShortSink) Sync() error { return nil }

//verif: prop=C13 bounds="multi-WriteSyncer whose members are themselves multi-WriteSyncers (slice-typed, hence uncomparable, sinks) and a sink listed twice: Write and Sync reach every listed sink once per listing, counts and errors aggregate as for flat lists, no panic"
func VC13MultiNested() {
	a, b := &vBytesSink{}, &vBytesSink{}
	var ws WriteSyncer
	wantA, wantB := 0, 0
	shape := vrt.Choice("shape", 4)
	switch shape {
	case 0:
		ws, wantA, wantB = NewMultiWriteSyncer(NewMultiWriteSyncer(a, b), NewMultiWriteSyncer(b, a)), 2, 2
	case 1:
		ws, wantA, wantB = NewMultiWriteSyncer(a, b, a), 2, 1
	case 2:
		ws, wantA, wantB = NewMultiWriteSyncer(NewMultiWriteSyncer(a, a), b, NewMultiWriteSyncer(b, a)), 3, 2
	case 3:
		ws, wantA, wantB = NewMultiWriteSyncer(AddSync(vFuncWriter(func(p []byte) (int, error) { return a.Write(p) })), AddSync(vFuncWriter(func(p []byte) (int, error) { return b.Write(p) })), b), 1, 2
	}
	payload := vrt.Bytes("p", 2)
	n, err := ws.Write(payload)
	vrt.Assert("write-reaches-every-listing", n == 2 && err == nil && len(a.writes) == wantA && len(b.writes) == wantB)
	serr := ws.Sync()
	syncA, syncB := wantA, wantB
	if shape == 3 {
		syncA = 0 // a function-typed writer has no Sync of its own
		syncB = 1
	}
	vrt.Assert("sync-reaches-every-listing", serr == nil && a.syncs == syncA && b.syncs == syncB)
}

// vFuncWriter is an io.Writer of function type (not comparable).
type vFuncWriter func([]byte) (int, error)

func (f vFuncWriter) Write(p []byte) (int, error) { return f(p) }
