//go:build verif

package zapcore

import (
	"fmt"
	"time"

	vrt "go.uber.org/zap/internal/vrt"
)

// vMenuMask: the valid-level part of the set comes from a small concrete menu (non-monotone sets
// included), everything outside the seven valid levels is an arbitrary symbolic bit.
func vMenuMask(name string) vMask {
	m := vNewMask(name)
	var valid uint64 // bits 0..5 = Info..Fatal ; Debug(-1) is bit 63 of word 3
	var debug bool
	switch vrt.Choice(name+".menu", 3) {
	case 0: // {Info, Error, Panic}: non-monotone
		valid = 1<<0 | 1<<2 | 1<<4
	case 1: // {Debug, Warn, Fatal}: non-monotone
		valid = 1<<1 | 1<<5
		debug = true
	case 2: // everything
		valid = 0x3f
		debug = true
	}
	m[0] = m[0]&^0x3f | valid
	m[3] = m[3] &^ (1 << 63)
	if debug {
		m[3] |= 1 << 63
	}
	return m
}

type vNode struct {
	id       string
	kind     int
	core     Core
	kids     []*vNode
	leaf     *vRecCore
	enab     LevelEnabler // leaf enabler or increase-level enabler
	incValid bool
	hooks    *int
}

const (
	vkMaskLeaf = iota
	vkThrLeaf
	vkNop
	vkTee
	vkIncThr
	vkIncMask
	vkHooks
	vkLazy
	vkWith
	vkSampler
	vkKinds
)

func vThreshold(name string) Level { return Level(vrt.Int8(name + ".thr")) }

func vBuild(id string, depth int, teeKidDepth int) *vNode {
	nk := vkKinds
	if depth == 0 {
		nk = vkTee // leaves only
	}
	n := &vNode{id: id, kind: vrt.Choice(id+".kind", nk)}
	switch n.kind {
	case vkMaskLeaf:
		n.enab = vMenuMask(id)
		n.leaf = vNewRecCore(id, n.enab)
		n.core = n.leaf
	case vkThrLeaf:
		n.enab = vThreshold(id)
		n.leaf = vNewRecCore(id, n.enab)
		n.core = n.leaf
	case vkNop:
		n.core = NewNopCore()
	case vkTee:
		// the first branch is the restricted one: order-dependent slips (a later branch looking at what an
		// earlier one registered) need the richer core second
		kd := depth - 1
		if kd > teeKidDepth {
			kd = teeKidDepth
		}
		a := vBuild(id+"a", kd, teeKidDepth)
		b := vBuild(id+"b", depth-1, teeKidDepth)
		n.kids = []*vNode{a, b}
		n.core = NewTee(a.core, b.core)
	case vkIncThr, vkIncMask:
		k := vBuild(id+"c", depth-1, teeKidDepth)
		n.kids = []*vNode{k}
		if n.kind == vkIncThr {
			n.enab = vThreshold(id)
		} else {
			n.enab = vMenuMask(id)
		}
		c, err := NewIncreaseLevelCore(k.core, n.enab)
		if err != nil {
			// an invalid increase leaves the core unchanged (what zap.IncreaseLevel does)
			n.core = k.core
		} else {
			n.incValid = true
			n.core = c
		}
	case vkHooks:
		k := vBuild(id+"c", depth-1, teeKidDepth)
		n.kids = []*vNode{k}
		n.hooks = new(int)
		n.core = RegisterHooks(k.core, func(Entry) error { *n.hooks++; return nil })
	case vkLazy:
		k := vBuild(id+"c", depth-1, teeKidDepth)
		n.kids = []*vNode{k}
		n.core = NewLazyWith(k.core, []Field{{Key: "lazy", Type: Int64Type, Integer: 1}})
	case vkWith:
		k := vBuild(id+"c", depth-1, teeKidDepth)
		n.kids = []*vNode{k}
		n.core = k.core.With([]Field{{Key: "with", Type: Int64Type, Integer: 2}})
	case vkSampler:
		k := vBuild(id+"c", depth-1, teeKidDepth)
		n.kids = []*vNode{k}
		n.core = NewSamplerWithOptions(k.core, time.Second, 1<<30, 0) // budget never exhausted
	}
	return n
}

// vWant is the reference: how many leaves below n must receive an entry of level l, given that all
// filters above enable it. It also records per-leaf and per-hook expectations.
func (n *vNode) want(l Level, gate bool, leaves map[*vRecCore]int, hooks map[*int]int) int {
	switch n.kind {
	case vkMaskLeaf, vkThrLeaf:
		if gate && n.enab.Enabled(l) {
			leaves[n.leaf]++
			return 1
		}
		return 0
	case vkNop:
		return 0
	case vkTee:
		return n.kids[0].want(l, gate, leaves, hooks) + n.kids[1].want(l, gate, leaves, hooks)
	case vkIncThr, vkIncMask:
		g := gate
		if n.incValid {
			g = g && n.enab.Enabled(l)
		}
		return n.kids[0].want(l, g, leaves, hooks)
	case vkHooks:
		k := n.kids[0].want(l, gate, leaves, hooks)
		if k > 0 {
			hooks[n.hooks]++
		}
		return k
	}
	return n.kids[0].want(l, gate, leaves, hooks)
}

func (n *vNode) collect(leaves *[]*vRecCore, hooks *[]*int) {
	if n.leaf != nil {
		*leaves = append(*leaves, n.leaf)
	}
	if n.hooks != nil {
		*hooks = append(*hooks, n.hooks)
	}
	for _, k := range n.kids {
		k.collect(leaves, hooks)
	}
}

func (n *vNode) describe() string {
	names := []string{"mask", "thr", "nop", "tee", "incthr", "incmask", "hooks", "lazy", "with", "sampler"}
	s := names[n.kind]
	if len(n.kids) > 0 {
		s += "("
		for i, k := range n.kids {
			if i > 0 {
				s += ","
			}
			s += k.describe()
		}
		s += ")"
	}
	return s
}

func vCheckTree(depth, teeKidDepth int) {
	root := vBuild("n", depth, teeKidDepth)
	vrt.Tag("shape=" + root.describe())
	l := Level(vrt.Int8("level"))
	ent := Entry{Level: l, Message: "m", Time: time.Unix(0, 0)}

	var leaves []*vRecCore
	var hooks []*int
	root.collect(&leaves, &hooks)
	wantLeaves, wantHooks := map[*vRecCore]int{}, map[*int]int{}
	total := root.want(l, true, wantLeaves, wantHooks)

	enabled := root.core.Enabled(l)
	ce := root.core.Check(ent, nil)
	if ce != nil {
		ce.Write()
	}
	for _, lf := range leaves {
		vrt.Assert("delivered-iff-enabled-on-path", len(lf.shared.writes) == wantLeaves[lf])
	}
	for _, h := range hooks {
		vrt.Assert("hook-once-iff-wrapped-core-accepted", *h == wantHooks[h])
	}
	vrt.Observe("delivered", total)
	vrt.Observe("enabled", enabled)
	vrt.Assert("enabled-consistent-with-delivery", enabled == (total > 0))

	// reported minimum level: the least valid level at which anything is delivered
	wantMin := InvalidLevel
	for lv := FatalLevel; lv >= DebugLevel; lv-- {
		if root.want(lv, true, map[*vRecCore]int{}, map[*int]int{}) > 0 {
			wantMin = lv
		}
	}
	vrt.Assert("levelof-consistent-with-delivery", LevelOf(root.core) == wantMin)
	vrt.Cover("done")
}

//verif: prop=C05 bounds="core trees of depth<=1 over {mask leaf, threshold leaf, nop, tee(2), increase(threshold|mask), hooks, lazy-with, With, sampler}; entry level any int8; thresholds any int8; masks: valid-level part from a 3-pattern menu incl. non-monotone sets, out-of-range part arbitrary"
func VC05TreeD1() { vCheckTree(1, 0) }

//verif: prop=C05 bounds="as VC05TreeD1 with depth<=2 (first tee branch restricted to leaves)"
func VC05TreeD2() { vCheckTree(2, 0) }

//verif: prop=C05 tier=thorough bounds="depth<=2 with both tee branches of depth 1"
func VC05TreeD2Full() { vCheckTree(2, 1) }

// A single increase-level core over a leaf with both level sets fully arbitrary (256 symbolic bits each).
//
//verif: prop=C05 bounds="increase-level core over one leaf, both enablers fully symbolic 256-bit sets; entry level any int8"
func VC05IncreaseArbitrary() {
	lm, im := vNewMask("leaf"), vNewMask("inc")
	leaf := vNewRecCore("leaf", lm)
	c, err := NewIncreaseLevelCore(leaf, im)
	if err != nil {
		vrt.Cover("rejected")
		// rejected exactly when some valid level would be widened
		widened := false
		for lv := DebugLevel; lv <= FatalLevel; lv++ {
			widened = widened || (im.Enabled(lv) && !lm.Enabled(lv))
		}
		vrt.Assert("rejected-only-when-widening", widened)
		return
	}
	vrt.Cover("accepted")
	l := Level(vrt.Int8("level"))
	want := im.Enabled(l) && lm.Enabled(l)
	ce := c.Check(Entry{Level: l}, nil)
	if ce != nil {
		ce.Write()
	}
	vrt.Observe("delivered", len(leaf.shared.writes))
	vrt.Assert("only-narrows", (len(leaf.shared.writes) == 1) == want)
	vrt.Assert("enabled-consistent-with-delivery", c.Enabled(l) == want)
}

var _ = fmt.Sprint

// Hook registration has a history: hooks registered one at a time or several at once on the same core, and
// sibling cores derived from one hooked parent. A hook belongs to the core it was registered on and to the
// cores derived from that one - never to a sibling.
//
//verif: prop=C05 bounds="a leaf with threshold any int8 below a parent with 1..3 hooks registered one at a time or 2..5 in one call; two sibling cores derived from the parent by RegisterHooks (and, one of them optionally, by With); one entry of level any int8 through the parent, either sibling or a grandchild: every hook fires exactly once iff it lies on that core's own path and the leaf accepts the entry"
func VC05HookSiblings() {
	leaf := vNewRecCore("leaf", vThreshold("leaf"))
	counts := make([]int, 9)
	hook := func(i int) func(Entry) error { return func(Entry) error { counts[i]++; return nil } }
	var parent Core = leaf
	nParent := 0
	if vrt.Choice("at-once", 2) == 0 {
		nParent = vrt.IntRange("parent-hooks", 1, 3)
		for i := 0; i < nParent; i++ {
			parent = RegisterHooks(parent, hook(i))
		}
	} else {
		nParent = vrt.IntRange("parent-hooks", 2, 5)
		hs := make([]func(Entry) error, nParent)
		for i := range hs {
			hs[i] = hook(i)
		}
		parent = RegisterHooks(parent, hs...)
	}
	a := RegisterHooks(parent, hook(5))
	if vrt.Choice("a-with", 2) == 1 {
		a = RegisterHooks(parent.With([]Field{{Key: "k", Type: Int64Type, Integer: 1}}), hook(5))
	}
	b := RegisterHooks(parent, hook(6))
	grand := RegisterHooks(a, hook(7))
	b2 := RegisterHooks(parent, hook(8))
	var through Core
	onPath := map[int]bool{}
	for i := 0; i < nParent; i++ {
		onPath[i] = true
	}
	switch vrt.Choice("through", 5) {
	case 0:
		through = parent
	case 1:
		through = a
		onPath[5] = true
	case 2:
		through = b
		onPath[6] = true
	case 3:
		through = grand
		onPath[5], onPath[7] = true, true
	case 4:
		through = b2
		onPath[8] = true
	}
	l := Level(vrt.Int8("level"))
	if ce := through.Check(Entry{Level: l, Message: "m", Time: time.Unix(0, 0)}, nil); ce != nil {
		ce.Write()
	}
	accepted := leaf.enab.Enabled(l)
	vrt.Observe("accepted", accepted)
	vrt.Assert("delivered-iff-enabled-on-path", (len(leaf.shared.writes) == 1) == accepted && len(leaf.shared.writes) <= 1)
	for i := range counts {
		want := 0
		if accepted && onPath[i] {
			want = 1
		}
		vrt.Assert("hook-once-iff-wrapped-core-accepted", counts[i] == want)
	}
	vrt.Cover("done")
}
