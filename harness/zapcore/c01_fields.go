//go:build verif

package zapcore

import (
	"fmt"
	"time"

	vrt "go.uber.org/zap/internal/vrt"
)

// vFieldsCase: a JSON encoder with `ctx` context fields (added through With on an ioCore) and `k`
// call-site fields drawn from the whole menu; the output must be one valid JSON object + line ending
// (C01) decoding to exactly the reference tree (C02).
// vLiteMenu: one template per way a field can leave the buffer (number, string quote, open namespace,
// nothing, closed object, closed array, inlined members) incl. failing marshalers.
var vLiteMenu = []int{0, 9, 16, 17, 18, 19, 20, 21, 22}

var vFullMenu = func() []int {
	m := make([]int, vFieldMenuSize)
	for i := range m {
		m[i] = i
	}
	return m
}()

func vFieldsCase(ctxMenus [][]int, fieldMenus [][]int, hostile bool, depth int) {
	cfg := EncoderConfig{MessageKey: "msg", LevelKey: "level", LineEnding: "\n", EncodeLevel: LowercaseLevelEncoder}
	// field templates are chosen first so that the time/duration encoder menus only multiply the
	// cases that contain such a field
	menus := append(append([][]int{}, ctxMenus...), fieldMenus...)
	ctx, total := len(ctxMenus), len(menus)
	sels := make([]int, total)
	needTime, needDur := false, false
	for i := range sels {
		sels[i] = menus[i][vrt.Choice(fmt.Sprintf("sel%d", i), len(menus[i]))]
		needTime = needTime || sels[i] == 15
		needDur = needDur || sels[i] == 14
	}
	vTimeSel, vDurSel = vTimeNil, vDurNil
	if needTime {
		cfg.EncodeTime = vPickTimeEncoder("cfg")
	}
	if needDur {
		cfg.EncodeDuration = vPickDurationEncoder("cfg")
	}
	root, ref := vNewRef()
	ref.add("level", xs("warn"))
	ref.add("msg", xs("hello"))
	sink := &vBytesSink{}
	var core Core = NewCore(NewJSONEncoder(cfg), sink, DebugLevel)
	hostileAt := -1
	if hostile {
		hostileAt = vrt.Choice("hostile", total+1) - 1 // which field (if any) gets a hostile key
	}
	n := 0
	mk := func(prefix string) Field {
		id := fmt.Sprintf("%s%d", prefix, n)
		vLiteNow = len(menus[n]) == len(vLiteMenu)
		f := vMakeField(id, sels[n], vKey(id, n == hostileAt), ref, &cfg, depth)
		vLiteNow = false
		n++
		return f
	}
	for i := 0; i < ctx; i++ {
		core = core.With([]Field{mk("c")})
	}
	var fields []Field
	for i := ctx; i < total; i++ {
		fields = append(fields, mk("f"))
	}
	ent := Entry{Level: WarnLevel, Message: "hello"}
	err := core.Write(ent, fields)
	vrt.Assert("write-returns-nil", err == nil)
	if len(sink.writes) != 1 {
		vrt.Fail("exactly-one-sink-write")
		return
	}
	out := sink.writes[0]
	vrt.Observe("line", out)
	v, perr := vrt.ParseJSONObjectLine(out, "\n", false)
	if perr != "" {
		vrt.Tag("parse=" + perr)
		vrt.Fail("one-valid-json-object-then-line-ending")
		return
	}
	vMatch("$", v, root)
	vrt.Cover("done")
}

//verif: prop=C01,C02,C10 bounds="JSON ioCore, 1 call-site field from the full 26-template menu (scalars symbolic over their whole type, 1 symbolic byte per string, object/array/inline marshalers incl. failing ones and open namespaces inside), hostile key variants (empty, quote, 1 symbolic byte), every built-in/nil/no-op time and duration encoder"
func VC01Field1() { vFieldsCase(nil, [][]int{vFullMenu}, true, 0) }

//verif: prop=C01,C02,C10 bounds="1 context field (With) from the 9-template lite menu x 1 call-site field from the full menu, plain keys"
func VC01Ctx1Field1() { vFieldsCase([][]int{vLiteMenu}, [][]int{vFullMenu}, false, 0) }

//verif: prop=C01,C02,C10 bounds="2 call-site fields: lite menu x full menu and full x lite, plain keys"
func VC01Field2() {
	if vrt.Choice("order", 2) == 0 {
		vFieldsCase(nil, [][]int{vLiteMenu, vFullMenu}, false, 0)
	} else {
		vFieldsCase(nil, [][]int{vFullMenu, vLiteMenu}, false, 0)
	}
}

//verif: prop=C01,C02,C10 tier=thorough bounds="1 call-site field from the full menu with plain keys, marshalers nested to depth 1"
func VC01Field1Deep() { vFieldsCase(nil, [][]int{vFullMenu}, false, 1) }

//verif: prop=C01,C02,C10 tier=thorough bounds="2 context steps (lite menu each) + 1 call-site field (full menu)"
func VC01Ctx2Field1() { vFieldsCase([][]int{vLiteMenu, vLiteMenu}, [][]int{vFullMenu}, false, 0) }

var _ = time.Second

type vPayload01 struct {
	A int64  `json:"a"`
	B string `json:"b"`
}

// A long-lived encoder (the core's, after With) and the per-entry encoders cloned from it must not share
// scratch state: entries in a row through one core, with reflected values in the context and at the call
// site, whatever the buffer pool hands back.
//
//verif: prop=C01,C08 bounds="JSON ioCore (with or without a caller encoder) whose With-context holds 0..1 reflected values and a number; 3 entries in a row, each with a symbolic int64 and (the first two optionally, the last always) a reflected call-site field, the first 3 sync.Pool.Get calls of the last entry returning the newest pooled object, the oldest one or a new one: every line is one well-formed JSON object holding exactly its own context and fields"
func VC01ReflectedRow() {
	cfg := EncoderConfig{MessageKey: "m", LineEnding: "\n"}
	withCaller := vrt.Choice("caller", 2) == 1
	if withCaller {
		cfg.CallerKey, cfg.EncodeCaller = "c", ShortCallerEncoder
	}
	sink := &vBytesSink{}
	ctxReflected := vrt.Choice("ctx-reflected", 2) == 1
	ctx := []Field{{Key: "n", Type: Int64Type, Integer: 7}}
	if ctxReflected {
		ctx = append(ctx, Field{Key: "cr", Type: ReflectType, Interface: vPayload01{1, "ctx"}})
	}
	core := NewCore(NewJSONEncoder(cfg), sink, DebugLevel).With(ctx)
	for i := 0; i < 3; i++ {
		x := vrt.Int64(vName("x", i))
		fields := []Field{{Key: "x", Type: Int64Type, Integer: x}}
		reflected := i == 2 || vrt.Choice(vName("reflected", i), 2) == 1
		if reflected {
			fields = append(fields, Field{Key: "r", Type: ReflectType, Interface: vPayload01{int64(i), "call"}})
		}
		ent := Entry{Level: InfoLevel, Message: "e", Time: time.Unix(1, 0)}
		if withCaller {
			ent.Caller = EntryCaller{Defined: true, File: "/a/b.go", Line: 3}
		}
		if i == 2 {
			vrt.PoolNondetFirst(3, 3)
		}
		_ = core.Write(ent, fields)
		vrt.PoolNondet(false)
		if len(sink.writes) != i+1 {
			vrt.Fail("exactly-one-sink-write-per-call")
			return
		}
		v, perr := vrt.ParseJSONObjectLine(sink.writes[i], "\n", false)
		if perr != "" {
			vrt.Tag("parse=" + perr)
			vrt.Fail("one-valid-json-object-then-line-ending")
			return
		}
		want := []string{"m"}
		if withCaller {
			want = []string{"c", "m"}
		}
		want = append(want, "n")
		if ctxReflected {
			want = append(want, "cr")
		}
		want = append(want, "x")
		if reflected {
			want = append(want, "r")
		}
		ok := len(v.Obj) == len(want)
		for j := 0; ok && j < len(want); j++ {
			ok = string(v.Obj[j].Key) == want[j]
		}
		vrt.Assert("line-holds-exactly-its-own-members-in-order", ok)
		if ok {
			vrt.Assert("call-site-value-intact", vNumIsInt(v.Get("x").Num, x))
			if reflected {
				r := v.Get("r")
				vrt.Assert("reflected-value-intact", r.Kind == vrt.JObj && len(r.Obj) == 2 && vNumIsInt(r.Get("a").Num, int64(i)) && string(r.Get("b").Str) == "call")
			}
			if ctxReflected {
				r := v.Get("cr")
				vrt.Assert("reflected-context-intact", r.Kind == vrt.JObj && len(r.Obj) == 2 && string(r.Get("b").Str) == "ctx")
			}
		}
	}
	vrt.Observe("lines", len(sink.writes))
	vrt.Cover("done")
}
