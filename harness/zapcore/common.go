//go:build verif

package zapcore

import (
	"fmt"

	vrt "go.uber.org/zap/internal/vrt"
)

// vMask is an arbitrary set of levels: one bit per int8 level value (all 256).
type vMask [4]uint64

func vNewMask(name string) vMask {
	var m vMask
	for i := range m {
		m[i] = vrt.Uint64(fmt.Sprintf("%s.mask%d", name, i))
	}
	return m
}

func (m vMask) Enabled(l Level) bool {
	u := uint8(l)
	w := m[0]
	switch u >> 6 {
	case 1:
		w = m[1]
	case 2:
		w = m[2]
	case 3:
		w = m[3]
	}
	return (w>>(u&63))&1 == 1
}

// vRecCore is a leaf core that records what reaches it. Its enabler is an arbitrary level set.
type vRecCore struct {
	name    string
	enab    LevelEnabler
	context []Field
	shared  *vRecState
	werr    error
}

type vRecState struct {
	checks  int
	adds    int
	writes  []vWritten
	syncs   int
}

type vWritten struct {
	ent    Entry
	fields []Field
}

func vNewRecCore(name string, enab LevelEnabler) *vRecCore {
	return &vRecCore{name: name, enab: enab, shared: &vRecState{}}
}

func (c *vRecCore) Enabled(l Level) bool { return c.enab.Enabled(l) }
func (c *vRecCore) With(fs []Field) Core {
	n := *c
	n.context = append(append([]Field(nil), c.context...), fs...)
	return &n
}
func (c *vRecCore) Check(e Entry, ce *CheckedEntry) *CheckedEntry {
	c.shared.checks++
	if c.Enabled(e.Level) {
		c.shared.adds++
		return ce.AddCore(e, c)
	}
	return ce
}
func (c *vRecCore) Write(e Entry, fs []Field) error {
	all := append(append([]Field(nil), c.context...), fs...)
	c.shared.writes = append(c.shared.writes, vWritten{e, all})
	vrt.Event("write:" + c.name)
	return c.werr
}
func (c *vRecCore) Sync() error {
	c.shared.syncs++
	vrt.Event("sync:" + c.name)
	return nil
}

// vBytesSink records every Write payload.
type vBytesSink struct {
	writes [][]byte
	syncs  int
}

func (s *vBytesSink) Write(p []byte) (int, error) {
	s.writes = append(s.writes, append([]byte(nil), p...))
	vrt.Event("sink.write")
	return len(p), nil
}
func (s *vBytesSink) Sync() error { s.syncs++; vrt.Event("sink.sync"); return nil }

func vName(p string, i int) string { return fmt.Sprintf("%s%d", p, i) }
