//go:build verif

package zapcore

import (
	"fmt"

	vrt "go.uber.org/zap/internal/vrt"
)

// vCol is an expected console column: exact text, or some non-empty text free of the separator.
type vCol struct {
	exact bool
	text  string
}

// vConsoleColumns is the reference: the enabled metadata columns in the fixed order.
func vConsoleColumns(cfg *EncoderConfig, sh vEntryShape, lvlText string, msg string, timeEnc, levelEnc, nameEnc, callerEnc bool) []vCol {
	var cols []vCol
	if cfg.TimeKey != "" && timeEnc && sh.timeSet {
		cols = append(cols, vCol{})
	}
	if cfg.LevelKey != "" && levelEnc {
		cols = append(cols, vCol{exact: true, text: lvlText})
	}
	if cfg.NameKey != "" && sh.named {
		cols = append(cols, vCol{exact: true, text: "svc.sub"})
	}
	if sh.caller {
		if cfg.CallerKey != "" && callerEnc {
			cols = append(cols, vCol{exact: true, text: "b/c.go:42"})
		}
		if cfg.FunctionKey != "" {
			cols = append(cols, vCol{exact: true, text: "pkg.fn"})
		}
	}
	if cfg.MessageKey != "" {
		cols = append(cols, vCol{exact: true, text: msg})
	}
	return cols
}

// vConsoleCheck walks the line: columns joined by sep, then (if fields produced output) sep + one JSON
// object in spaced mode equal to the reference tree, then "\n"+stack if present and keyed, then line ending.
func vConsoleCheck(out []byte, sep string, cols []vCol, root *vExp, stack string, lineEnding string) {
	pos := 0
	has := func(s string) bool {
		return pos+len(s) <= len(out) && string(out[pos:pos+len(s)]) == s
	}
	for i, c := range cols {
		if i > 0 {
			if !has(sep) {
				vrt.Fail("columns-joined-by-separator")
				return
			}
			pos += len(sep)
		}
		if c.exact {
			if !has(c.text) {
				vrt.Fail("column-text-and-order")
				return
			}
			pos += len(c.text)
			continue
		}
		// free-form column: non-empty, runs to the next separator / end
		start := pos
		for pos < len(out) && !has(sep) && out[pos] != '\n' {
			pos++
		}
		vrt.Assert("free-column-nonempty", pos > start)
	}
	if root != nil && len(root.obj) > 0 {
		if len(cols) > 0 {
			if !has(sep) {
				vrt.Fail("context-preceded-by-separator")
				return
			}
			pos += len(sep)
		}
		v, rest, perr := vrt.ParseJSONValue(out[pos:], true)
		if perr != "" || v == nil {
			vrt.Tag("parse=" + perr)
			vrt.Fail("context-is-one-valid-json-object")
			return
		}
		vMatch("$", v, root)
		pos = len(out) - len(rest)
	}
	if stack != "" {
		if !has("\n" + stack) {
			vrt.Fail("stack-on-following-lines")
			return
		}
		pos += 1 + len(stack)
	}
	vrt.Assert("line-ending-then-nothing", string(out[pos:]) == lineEnding)
	vrt.Cover("done")
}

//verif: prop=C16 bounds="console EncodeEntry: every subset of the 7 metadata keys x entry shapes (time zero/symbolic, name, caller, stack), production encoders, 0 or 1 field from the lite menu, default separator; function non-empty; message plain, ending with the separator or starting with it"
func VC16Presence() {
	bit := func(n string) bool { return vrt.Choice(n, 2) == 1 }
	cfg := EncoderConfig{
		LevelKey: vKeyIf(bit("K.level"), "L"), TimeKey: vKeyIf(bit("K.time"), "T"), NameKey: vKeyIf(bit("K.name"), "N"),
		CallerKey: vKeyIf(bit("K.caller"), "C"), FunctionKey: vKeyIf(bit("K.func"), "F"), MessageKey: vKeyIf(bit("K.msg"), "M"),
		StacktraceKey: vKeyIf(bit("K.stack"), "S"),
		EncodeLevel:   CapitalLevelEncoder, EncodeTime: EpochNanosTimeEncoder, EncodeDuration: NanosDurationEncoder,
		EncodeCaller: ShortCallerEncoder, EncodeName: FullNameEncoder, LineEnding: "\n",
	}
	vTimeSel, vDurSel = vTimeEpochNanos, vDurNanos
	sh := vEntryShape{timeSet: bit("E.time"), named: bit("E.name"), caller: bit("E.caller"), fn: true, stack: bit("E.stack")}
	// the message may itself end with the separator: it is still one column, followed by one separator
	withField := bit("field")
	msg := "hello"
	if withField && cfg.MessageKey != "" && !sh.stack && sh.named {
		msg = []string{"hello", "hello\t", "\thello"}[vrt.Choice("msg", 3)]
	}
	ent := vMakeEntry(sh, WarnLevel, msg)
	root, ref := vNewRef()
	var fields []Field
	if withField {
		vLiteNow = true
		fields = append(fields, vMakeField("f0", vLiteMenu[vrt.Choice("sel0", len(vLiteMenu))], "kf0", ref, &cfg, 0))
		vLiteNow = false
	}
	enc := NewConsoleEncoder(cfg)
	buf, err := enc.EncodeEntry(ent, fields)
	vrt.Assert("encode-returns-nil", err == nil)
	out := buf.Bytes()
	vrt.Observe("line", out)
	cols := vConsoleColumns(&cfg, sh, "WARN", msg, true, true, true, true)
	stack := ""
	if sh.stack && cfg.StacktraceKey != "" {
		stack = ent.Stack
	}
	vConsoleCheck(out, "\t", cols, root, stack, "\n")
}

//verif: prop=C16 bounds="console encoder with all keys set: 1 context field (lite) via Clone+AddTo and 1 call-site field (full menu): JSON context column in spaced mode decodes to the same reference tree as the JSON encoder's; separator from {tab, multi-byte, 1 symbolic control byte}"
func VC16Fields() {
	cfg := EncoderConfig{LevelKey: "L", TimeKey: "T", NameKey: "N", CallerKey: "C", FunctionKey: "F", MessageKey: "M", StacktraceKey: "S",
		EncodeLevel: LowercaseLevelEncoder, EncodeCaller: ShortCallerEncoder, EncodeName: FullNameEncoder, LineEnding: "\n"}
	sep := "\t"
	switch vrt.Choice("sep", 3) {
	case 1:
		sep = " | "
		cfg.ConsoleSeparator = sep
	case 2:
		b := vrt.Byte("sepbyte")
		vrt.Assume(b < 0x20 && b != '\n') // a byte that cannot occur inside the rendered columns
		sep = string([]byte{b})
		cfg.ConsoleSeparator = sep
	}
	sel0 := vLiteMenu[vrt.Choice("sel0", len(vLiteMenu))]
	sel1 := vrt.Choice("sel1", vFieldMenuSize)
	vTimeSel, vDurSel = vTimeNil, vDurNil
	cfg.EncodeTime = EpochNanosTimeEncoder
	vTimeSel = vTimeEpochNanos
	if sel1 == 15 {
		cfg.EncodeTime = vPickTimeEncoder("cfg")
	}
	if sel1 == 14 {
		cfg.EncodeDuration = vPickDurationEncoder("cfg")
	}
	timeEnc := cfg.EncodeTime != nil
	root, ref := vNewRef()
	enc := NewConsoleEncoder(cfg)
	vLiteNow = true
	c0 := vMakeField("c0", sel0, "kc0", ref, &cfg, 0)
	vLiteNow = false
	ctx := enc.Clone()
	c0.AddTo(ctx)
	f1 := vMakeField("f1", sel1, "kf1", ref, &cfg, 0)
	sh := vEntryShape{timeSet: true, named: true, caller: true, fn: true, stack: true}
	ent := vMakeEntry(sh, ErrorLevel, "hello")
	buf, err := ctx.EncodeEntry(ent, []Field{f1})
	vrt.Assert("encode-returns-nil", err == nil)
	out := buf.Bytes()
	vrt.Observe("line", out)
	cols := vConsoleColumns(&cfg, sh, "error", "hello", timeEnc && vTimeSel != vTimeNop, true, true, true)
	vConsoleCheck(out, sep, cols, root, ent.Stack, "\n")
}

var _ = fmt.Sprint

// Absent and no-op sub-encoders: a column appears exactly when its key is set and its encoder writes
// something (the name falls back to the full name when its encoder is nil; the function needs no encoder).
//
//verif: prop=C16 bounds="console EncodeEntry with all keys set: each of the level/time/name/caller encoders in {nil, no-op, built-in} (full product) x caller defined or not x name set or not; message key set or not; tab or a multi-byte separator; columns and their order against the reference"
func VC16Encoders() {
	sep := []string{"\t", "<->"}[vrt.Choice("sep", 2)]
	cfg := EncoderConfig{LevelKey: "L", TimeKey: "T", NameKey: "N", CallerKey: "C", FunctionKey: "F", MessageKey: "M", StacktraceKey: "S", LineEnding: "\n", ConsoleSeparator: sep}
	if vrt.Choice("msgkey", 2) == 1 {
		cfg.MessageKey = ""
	}
	le, te, ne, ce := vrt.Choice("levelenc", 3), vrt.Choice("timeenc", 3), vrt.Choice("nameenc", 3), vrt.Choice("callerenc", 3)
	switch le {
	case 1:
		cfg.EncodeLevel = vNopLevelEncoder
	case 2:
		cfg.EncodeLevel = CapitalLevelEncoder
	}
	switch te {
	case 1:
		cfg.EncodeTime = vNopTimeEncoder
	case 2:
		cfg.EncodeTime = EpochNanosTimeEncoder
	}
	switch ne {
	case 1:
		cfg.EncodeName = vNopNameEncoder
	case 2:
		cfg.EncodeName = FullNameEncoder
	}
	switch ce {
	case 1:
		cfg.EncodeCaller = vNopCallerEncoder
	case 2:
		cfg.EncodeCaller = ShortCallerEncoder
	}
	vTimeSel, vDurSel = vTimeEpochNanos, vDurNanos
	sh := vEntryShape{timeSet: true, named: vrt.Choice("E.name", 2) == 1, caller: vrt.Choice("E.caller", 2) == 1, fn: true}
	ent := vMakeEntry(sh, WarnLevel, "hello")
	root, _ := vNewRef()
	enc := NewConsoleEncoder(cfg)
	buf, err := enc.EncodeEntry(ent, nil)
	vrt.Assert("encode-returns-nil", err == nil)
	out := buf.Bytes()
	vrt.Observe("line", out)
	cols := vConsoleColumns(&cfg, sh, "WARN", "hello", te == 2, le == 2, ne != 1, ce == 2)
	if ne == 1 {
		// a name encoder that writes nothing: no name column
		var kept []vCol
		for _, c := range cols {
			if !(c.exact && c.text == "svc.sub") {
				kept = append(kept, c)
			}
		}
		cols = kept
	}
	vConsoleCheck(out, sep, cols, root, "", "\n")
	vrt.Cover("done")
}
