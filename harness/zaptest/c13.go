//go:build verif

package zaptest

import (
	vrt "go.uber.org/zap/internal/vrt"
)

type vFakeT struct {
	logs  []string
	fails int
}

func (t *vFakeT) Logf(format string, args ...interface{}) {
	if len(args) == 1 {
		if b, ok := args[0].([]byte); ok {
			t.logs = append(t.logs, string(b))
			return
		}
	}
	t.logs = append(t.logs, format)
}
func (t *vFakeT) Errorf(string, ...interface{}) {}
func (t *vFakeT) Fail()                           { t.fails++ }
func (t *vFakeT) Failed() bool                    { return t.fails > 0 }
func (t *vFakeT) Name() string                    { return "fake" }
func (t *vFakeT) FailNow()                        {}

//verif: prop=C13 bounds="zaptest.TestingWriter.Write on payloads of 0..3 symbolic bytes, with and without MarkFailed: reports len(p) and nil, logs the payload without trailing newlines"
func VC13TestingWriter() {
	n := vrt.IntRange("len", 0, 3)
	p := vrt.Bytes("p", n)
	orig := string(p)
	ft := &vFakeT{}
	w := NewTestingWriter(ft)
	mark := vrt.Choice("markfailed", 2) == 1
	if mark {
		w = w.WithMarkFailed(true)
	}
	k, err := w.Write(p)
	vrt.Observe("n", k)
	vrt.Observe("logs", len(ft.logs))
	vrt.Assert("reports-len-p-and-nil", k == n && err == nil)
	vrt.Assert("caller-buffer-untouched", string(p) == orig)
	vrt.Assert("logged-once", len(ft.logs) == 1)
	vrt.Assert("marks-failed-iff-configured", (ft.fails == 1) == mark)
	vrt.Assert("sync-nil", w.Sync() == nil)
}
