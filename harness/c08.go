//go:build verif

package zap

import (
	"errors"

	vrt "go.uber.org/zap/internal/vrt"
	"go.uber.org/zap/zapcore"
)

// C08 at the Logger level: caller and stack annotations come from a pooled stack object whose storage grows
// with the depth of the call stack, zap.Errors wraps its elements in pooled objects, and checked entries are
// pooled. The observed call runs first on empty pools, then after a history, with pool reuse nondeterministic.

func vC08LogAt(l *Logger, depth int, msg string, fs ...Field) {
	vNest(depth, func() { l.Error(msg, fs...) })
}

//verif: prop=C08 bounds="Logger with caller and stack annotations over a JSON IO core: the observed Error call from a call stack 3 or 70 helper frames deep (below / above the pooled 64-entry storage), with a zap.Errors field or a zap.Stack field or none; first on empty pools, then after 0..2 history calls from {shallow, deep (grows the pooled storage), with Errors, a Check that is never written} and with pool reuse nondeterministic (first 4 Gets: newest, oldest or new): byte-identical line"
func VC08Stacks() {
	sink := &vLineSink{}
	core := zapcore.NewCore(zapcore.NewJSONEncoder(zapcore.EncoderConfig{MessageKey: "m", CallerKey: "c", FunctionKey: "f", StacktraceKey: "s"}), sink, zapcore.DebugLevel)
	log := New(core, AddCaller(), AddStacktrace(zapcore.ErrorLevel))
	other := New(zapcore.NewCore(zapcore.NewJSONEncoder(zapcore.EncoderConfig{MessageKey: "m", StacktraceKey: "s"}), &vLineSink{}, zapcore.DebugLevel), AddStacktrace(zapcore.DebugLevel))
	depth := []int{3, 70}[vrt.Choice("depth", 2)]
	var fs []Field
	switch vrt.Choice("field", 3) {
	case 1:
		fs = []Field{Errors("errs", []error{errors.New("e1"), errors.New("e2")})}
	case 2:
		fs = nil // a Stack field is taken inside the call below
	}
	withStackField := len(fs) == 0 && vrt.Choice("stackfield", 2) == 1
	run := func() []byte {
		n := len(sink.lines)
		if withStackField {
			vNest(depth, func() { log.Error("m", Stack("st")) })
		} else {
			vC08LogAt(log, depth, "m", fs...)
		}
		if len(sink.lines) != n+1 {
			vrt.Fail("one-line-per-call")
			return nil
		}
		return sink.lines[n]
	}
	// both observed calls are made from the same source line, so that their stack traces can be equal
	var outs [2][]byte
	for round := 0; round < 2; round++ {
		if round == 1 {
			nh := vrt.Choice("history", 3)
			for i := 0; i < nh; i++ {
				switch vrt.Choice(vName("hist", i), 4) {
				case 0:
					other.Info("shallow")
				case 1:
					vNest(150, func() { other.Info("deep") })
				case 2:
					other.Info("errs", Errors("e", []error{errors.New("x"), nil, errors.New("y"), errors.New("z")}))
				case 3:
					_ = other.Check(zapcore.InfoLevel, "checked-but-never-written")
				}
			}
			vrt.PoolNondetFirst(4, 3)
		}
		outs[round] = run()
	}
	vrt.PoolNondet(false)
	first, again := outs[0], outs[1]
	if first == nil || again == nil {
		return
	}
	vrt.Observe("same", string(first) == string(again))
	vrt.Assert("same-bytes-whatever-was-logged-before-and-whatever-the-pools-hand-back", string(first) == string(again))
	vrt.Cover("done")
}
