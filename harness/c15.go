//go:build verif

package zap

import (
	"log"
	"runtime"
	"strings"

	vrt "go.uber.org/zap/internal/vrt"
	"go.uber.org/zap/zapcore"
)

// The runtime is modelled (DESIGN §2.5): one logical frame per source-level call, wrappers elided. What is
// checked is zap's own arithmetic on top of it: skip offsets, sugar/desugar adjustments, the std-log depth
// constants, storage growth and frame formatting. Every site function takes its own position with
// runtime.Caller on the same source line as the logging call, so the expected file/line/function come from
// the same mechanism natively and under the engine.

type vWhereInfo struct {
	file string
	line int
	fn   string
}

// vWhere describes the line it is called from.
func vWhere() vWhereInfo {
	pc, file, line, _ := runtime.Caller(1)
	return vWhereInfo{file, line, runtime.FuncForPC(pc).Name()}
}

// vNest calls f below n+1 frames of itself.
func vNest(n int, f func()) {
	if n == 0 {
		f()
		return
	}
	vNest(n-1, f)
}

// ---- user call sites, one per front end; the logging call and vWhere share a line.
// kinds: 0 Info 1 Log 2 Check+Write 3 Sugar.Info 4 Sugar.Infof 5 Sugar.Infow 6 Sugar.Infoln 7 Sugar.Logw
// 8 Sugar.Logf 9 Sugar.Log 10 Sugar.Logln 11 Error (stack level) 12 Sugar.Errorw
const vNumFronts = 13

func vSite(kind int, l *Logger, lvl zapcore.Level) (w vWhereInfo) {
	s := l.Sugar()
	switch kind {
	case 0:
		w = vWhere(); l.Info("m")
	case 1:
		w = vWhere(); l.Log(lvl, "m")
	case 2:
		w = vWhere(); ce := l.Check(lvl, "m")
		if ce != nil {
			ce.Write()
		}
	case 3:
		w = vWhere(); s.Info("m")
	case 4:
		w = vWhere(); s.Infof("%s", "m")
	case 5:
		w = vWhere(); s.Infow("m", "k", 1)
	case 6:
		w = vWhere(); s.Infoln("m")
	case 7:
		w = vWhere(); s.Logw(lvl, "m", "k", 1)
	case 8:
		w = vWhere(); s.Logf(lvl, "%s", "m")
	case 9:
		w = vWhere(); s.Log(lvl, "m")
	case 10:
		w = vWhere(); s.Logln(lvl, "m")
	case 11:
		w = vWhere(); l.Error("m")
	case 12:
		w = vWhere(); s.Errorw("m", "k", 1)
	}
	return w
}

// vSiteNested logs from below extra frames: vNest x (n+1) and the closure, i.e. n+2 frames between the
// site line and the logging method.
func vSiteNested(n int, l *Logger, sugared bool) (w vWhereInfo) {
	if sugared {
		s := l.Sugar()
		w = vWhere(); vNest(n, func() { s.Infow("m", "k", 1) })
		return w
	}
	w = vWhere(); vNest(n, func() { l.Info("m") })
	return w
}

func vSiteStd(std *log.Logger) (w vWhereInfo) {
	w = vWhere(); std.Print("m")
	return w
}

func vSiteStdGlobal() (w vWhereInfo) {
	w = vWhere(); log.Print("m")
	return w
}

// vConvert applies a chain of conversions, none of which may move the reported call site.
func vConvert(l *Logger, id string, steps int) *Logger {
	for i := 0; i < steps; i++ {
		switch vrt.Choice(vName(id, i), 7) {
		case 0:
			l = l.Sugar().Desugar()
		case 1:
			l = l.With(Int("c", i))
		case 2:
			l = l.WithLazy(Int("c", i))
		case 3:
			l = l.Named("n")
		case 4:
			l = l.WithOptions(AddCallerSkip(0))
		case 5:
			l = l.Sugar().With("c", i).Named("s").Desugar()
		case 6:
			l = l.Sugar().WithLazy("c", i).WithOptions(AddCallerSkip(0)).Desugar()
		}
	}
	return l
}

func vCallerMatches(e zapcore.Entry, w vWhereInfo) bool {
	c := e.Caller
	if !(c.Defined && c.File == w.file && c.Line == w.line && c.Function == w.fn) {
		vrt.Tag("got=" + c.Function + "@" + c.File + ":" + vItoa(c.Line) + " want=" + w.fn + "@" + w.file + ":" + vItoa(w.line))
	}
	return c.Defined && c.File == w.file && c.Line == w.line && c.Function == w.fn
}

// first frame of a formatted stack: "function\n\tfile:line"
func vStackFrames(stack string) (fns []string, locs []string) {
	lines := strings.Split(stack, "\n")
	for i := 0; i+1 < len(lines); i += 2 {
		fns = append(fns, lines[i])
		locs = append(locs, strings.TrimPrefix(lines[i+1], "\t"))
	}
	return
}

func vItoa(n int) string {
	if n == 0 {
		return "0"
	}
	s := ""
	for n > 0 {
		s = string(rune('0'+n%10)) + s
		n /= 10
	}
	return s
}

// ---------------------------------------------------------------- harnesses

//verif: prop=C15 bounds="13 front ends (Logger Info/Log/Check+Write/Error, Sugared plain/f/w/ln and Log*/Errorw) on a logger obtained through 0..2 conversions from {Sugar.Desugar, With, WithLazy, Named, WithOptions, Sugar.With.Named.Desugar, Sugar.WithLazy.WithOptions.Desugar}; AddCaller; stack traces from Error: caller = the site's own file/line/function, stack attached exactly for levels >= the configured one and starting at the same frame; modelled runtime (logical frames)"
func VC15Fronts() {
	rec := vNewCore("rec", zapcore.DebugLevel)
	l := New(rec, AddCaller(), AddStacktrace(zapcore.ErrorLevel))
	l = vConvert(l, "conv", vrt.Choice("steps", 3))
	kind := vrt.Choice("front", vNumFronts)
	w := vSite(kind, l, zapcore.WarnLevel)
	if len(rec.st.writes) != 1 {
		vrt.Fail("one-entry")
		return
	}
	e := rec.st.writes[0].ent
	vrt.Observe("caller-line", e.Caller.Line)
	vrt.Observe("caller-fn", e.Caller.Function)
	vrt.Assert("caller-is-the-users-call-site", vCallerMatches(e, w))
	wantStack := kind >= 11
	vrt.Assert("stack-attached-exactly-for-configured-levels", (e.Stack != "") == wantStack)
	if wantStack && e.Stack != "" {
		fns, locs := vStackFrames(e.Stack)
		vrt.Assert("stack-starts-at-the-call-site", len(fns) > 0 && fns[0] == w.fn && locs[0] == w.file+":"+vItoa(w.line))
		vrt.Assert("stack-reaches-the-outermost-user-frame", vHas(fns, "go.uber.org/zap.VC15Fronts"))
	}
	vrt.Cover("done")
}

func vHas(xs []string, x string) bool {
	for _, y := range xs {
		if y == x {
			return true
		}
	}
	return false
}

func vCountOf(xs []string, x string) int {
	n := 0
	for _, y := range xs {
		if y == x {
			n++
		}
	}
	return n
}

//verif: prop=C15 bounds="wrapper depth n in 0..3 with AddCallerSkip(n+2) (the frames a helper adds), plain and sugared logger, optionally converted once, optionally with the skip split over two AddCallerSkip options: caller and first stack frame = the site line that entered the helpers"
func VC15Skip() {
	rec := vNewCore("rec", zapcore.DebugLevel)
	n := vrt.IntRange("wrappers", 0, 3)
	var l *Logger
	if vrt.Choice("split", 2) == 0 {
		l = New(rec, AddCaller(), AddStacktrace(zapcore.DebugLevel), AddCallerSkip(n+2))
	} else {
		l = New(rec, AddCaller(), AddCallerSkip(n), AddStacktrace(zapcore.DebugLevel)).WithOptions(AddCallerSkip(2))
	}
	l = vConvert(l, "conv", vrt.Choice("steps", 2))
	w := vSiteNested(n, l, vrt.Choice("sugared", 2) == 1)
	if len(rec.st.writes) != 1 {
		vrt.Fail("one-entry")
		return
	}
	e := rec.st.writes[0].ent
	vrt.Observe("caller-line", e.Caller.Line)
	vrt.Assert("caller-shifted-outward-by-exactly-the-configured-skip", vCallerMatches(e, w))
	fns, locs := vStackFrames(e.Stack)
	vrt.Assert("stack-starts-at-the-same-frame", len(fns) > 0 && fns[0] == w.fn && locs[0] == w.file+":"+vItoa(w.line))
	vrt.Assert("skipped-frames-not-in-the-stack", !vHas(fns, "go.uber.org/zap.vNest"))
}

//verif: prop=C15 bounds="call-stack depth: n+1 extra frames with n in {0, 40, 61, 62, 63, 64, 70, 126, 127, 128, 200} (below, at and above the pooled 64-entry storage and its doublings), twice in a row (pooled storage reused), AddCallerSkip(0): the stack starts at the innermost user frame, lists every one of the n+1 helper frames and reaches the outermost user frame"
func VC15Depth() {
	rec := vNewCore("rec", zapcore.DebugLevel)
	l := New(rec, AddCaller(), AddStacktrace(zapcore.DebugLevel))
	depths := []int{0, 40, 61, 62, 63, 64, 70, 126, 127, 128, 200}
	for round := 0; round < 2; round++ {
		n := depths[vrt.Choice(vName("depth", round), len(depths))]
		var w vWhereInfo
		vNest(n, func() { w = vWhere(); l.Info("m") })
		if len(rec.st.writes) != round+1 {
			vrt.Fail("one-entry")
			return
		}
		e := rec.st.writes[round].ent
		vrt.Assert("caller-is-the-innermost-user-frame", vCallerMatches(e, w))
		fns, _ := vStackFrames(e.Stack)
		vrt.Observe("helper-frames", vCountOf(fns, "go.uber.org/zap.vNest"))
		vrt.Assert("stack-starts-at-the-call-site", len(fns) > 0 && fns[0] == w.fn)
		vrt.Assert("every-helper-frame-listed", vCountOf(fns, "go.uber.org/zap.vNest") == n+1)
		vrt.Assert("stack-reaches-the-outermost-user-frame", vHas(fns, "go.uber.org/zap.VC15Depth"))
	}
}

//verif: prop=C15 bounds="stack-trace threshold any int8 (and an arbitrary level set) x entry level in Debug..Error through Log: a stack is attached iff the configured enabler enables the level"
func VC15StackLevels() {
	rec := vNewCore("rec", zapcore.DebugLevel)
	var enab zapcore.LevelEnabler
	if vrt.Choice("enabler", 2) == 0 {
		enab = zapcore.Level(vrt.Int8("threshold"))
	} else {
		enab = vNewMask256("stack")
	}
	l := New(rec, AddStacktrace(enab))
	if vrt.Choice("caller", 2) == 1 {
		l = l.WithOptions(AddCaller())
	}
	lvl := zapcore.Level(vrt.IntRange("level", -1, 2))
	l.Log(lvl, "m")
	if len(rec.st.writes) != 1 {
		vrt.Fail("one-entry")
		return
	}
	e := rec.st.writes[0].ent
	vrt.Observe("has-stack", e.Stack != "")
	vrt.Assert("stack-attached-exactly-for-configured-levels", (e.Stack != "") == enab.Enabled(lvl))
}

//verif: prop=C15 bounds="std-log bridge: NewStdLog, NewStdLogAt(levels Debug..Error) and RedirectStdLog(At) on a logger obtained through 0..1 conversion: the entry's caller is the line that called the standard logger"
func VC15StdLog() {
	rec := vNewCore("rec", zapcore.DebugLevel)
	l := vConvert(New(rec, AddCaller()), "conv", vrt.Choice("steps", 2))
	var w vWhereInfo
	switch vrt.Choice("bridge", 4) {
	case 0:
		w = vSiteStd(NewStdLog(l))
	case 1:
		std, err := NewStdLogAt(l, zapcore.Level(vrt.IntRange("level", -1, 2)))
		if err != nil {
			vrt.Fail("NewStdLogAt-rejects-a-valid-level")
			return
		}
		w = vSiteStd(std)
	case 2:
		restore := RedirectStdLog(l)
		w = vSiteStdGlobal()
		restore()
	case 3:
		restore, err := RedirectStdLogAt(l, zapcore.Level(vrt.IntRange("level", -1, 2)))
		if err != nil {
			vrt.Fail("RedirectStdLogAt-rejects-a-valid-level")
			return
		}
		w = vSiteStdGlobal()
		restore()
	}
	if len(rec.st.writes) != 1 {
		vrt.Fail("one-entry")
		return
	}
	e := rec.st.writes[0].ent
	vrt.Observe("caller-line", e.Caller.Line)
	vrt.Observe("caller-fn", e.Caller.Function)
	vrt.Assert("caller-is-the-line-that-called-the-standard-logger", vCallerMatches(e, w))
}

// ---- logging from a deferred function, while a panic unwinds and at an ordinary return

func vBoom() { panic("boom") }

// vDeferredLog is the deferred function: it logs (after recovering, if there is something to recover).
func vDeferredLog(l *Logger, front int, doRecover bool, w *vWhereInfo) {
	if doRecover {
		_ = recover()
	}
	switch front {
	case 0:
		*w = vWhere(); l.Error("m")
	case 1:
		*w = vWhere(); l.Sugar().Errorw("m", "k", 1)
	case 2:
		*w = vWhere(); l.Info("m", Stack("s"))
	}
}

func vDeferSite(n int, l *Logger, front int, panics bool, w *vWhereInfo) {
	defer vDeferredLog(l, front, panics, w)
	if panics {
		vNest(n, vBoom)
	}
}

//verif: prop=C15 bounds="logging from a deferred function, at an ordinary return and while a panic raised n+2 frames further in (n in 0..2) unwinds; Logger.Error, Sugar.Errorw and the zap.Stack field: caller = the deferred function's line, and the stack lists the whole chain: the deferred function, the panicking function and every frame between it and the deferring function, and the outermost user frame; modelled runtime (the frames a panic in flight leaves on the stack are spliced back in)"
func VC15Deferred() {
	rec := vNewCore("rec", zapcore.DebugLevel)
	l := New(rec, AddCaller(), AddStacktrace(zapcore.ErrorLevel))
	front := vrt.Choice("front", 3)
	panics := vrt.Choice("panics", 2) == 1
	n := 0
	if panics {
		n = vrt.IntRange("depth", 0, 2)
	}
	var w vWhereInfo
	vDeferSite(n, l, front, panics, &w)
	if len(rec.st.writes) != 1 {
		vrt.Fail("one-entry")
		return
	}
	e := rec.st.writes[0].ent
	vrt.Assert("caller-is-the-deferred-functions-line", vCallerMatches(e, w))
	stack := e.Stack
	if front == 2 {
		stack = ""
		for _, f := range rec.st.writes[0].fields {
			if f.Key == "s" {
				stack = f.String
			}
		}
	}
	fns, _ := vStackFrames(stack)
	vrt.Observe("helper-frames", vCountOf(fns, "go.uber.org/zap.vNest"))
	vrt.Observe("boom", vHas(fns, "go.uber.org/zap.vBoom"))
	vrt.Assert("stack-starts-at-the-call-site", len(fns) > 0 && fns[0] == w.fn)
	if panics {
		vrt.Assert("panicking-function-listed", vHas(fns, "go.uber.org/zap.vBoom"))
		vrt.Assert("every-frame-between-panic-and-defer-listed", vCountOf(fns, "go.uber.org/zap.vNest") == n+1)
	}
	vrt.Assert("deferring-function-listed", vHas(fns, "go.uber.org/zap.vDeferSite"))
	vrt.Assert("stack-reaches-the-outermost-user-frame", vHas(fns, "go.uber.org/zap.VC15Deferred"))
	vrt.Cover("done")
}
