//go:build verif

package zap

import (
	"errors"
	"fmt"
	"math"
	"reflect"
	"time"

	vrt "go.uber.org/zap/internal/vrt"
	"go.uber.org/zap/zapcore"
)

type vObj struct{ n int64 }

func (o vObj) MarshalLogObject(enc zapcore.ObjectEncoder) error {
	enc.AddInt64("n", o.n)
	return nil
}

type vObjP struct{ n int64 }

func (o *vObjP) MarshalLogObject(enc zapcore.ObjectEncoder) error {
	enc.AddInt64("n", o.n)
	return nil
}

type vArr []int64

func (a vArr) MarshalLogArray(enc zapcore.ArrayEncoder) error {
	for _, v := range a {
		enc.AppendInt64(v)
	}
	return nil
}

type vStr struct{ s string }

func (s vStr) String() string { return s.s }

// vSliceStringer is a Stringer whose dynamic type is not comparable.
type vSliceStringer []string

func (s vSliceStringer) String() string { return fmt.Sprint([]string(s)) }

//verif: prop=C03 bounds="structural constructors: Object, Array, Inline, Dict, Namespace, Skip, Reflect, Stringer, Binary, ByteString(s): payload delivered to the encoder unchanged (symbolic int64/bytes inside)"
func VC03_Structural() {
	v := vrt.Int64("v")
	r := &vRecEnc{}
	switch vrt.Choice("ctor", 10) {
	case 0:
		Object("k", vObj{v}).AddTo(r)
		vrt.Assert("Object", len(r.calls) == 1 && r.calls[0].method == "AddObject" && r.calls[0].key == "k" && len(r.calls[0].fields) == 1 && r.calls[0].fields[0].val.(int64) == v)
	case 1:
		Array("k", vArr{v, 2}).AddTo(r)
		el, ok := r.array("k")
		vrt.Assert("Array", ok && len(el) == 2 && el[0].val.(int64) == v && el[1].val.(int64) == 2)
	case 2:
		Inline(vObj{v}).AddTo(r)
		vrt.Assert("Inline", len(r.calls) == 1 && r.calls[0].method == "AddInt64" && r.calls[0].key == "n" && r.calls[0].val.(int64) == v)
	case 3:
		// a caller-owned slice with no-op fields in it (Skip, Error(nil)); used twice, directly and through Any
		fs := []Field{Skip(), Int64("a", v), Error(nil), String("b", "x")}
		keep := append([]Field(nil), fs...)
		if vrt.Choice("dict-via", 2) == 0 {
			Dict("k", fs...).AddTo(r)
		} else {
			Any("k", fs).AddTo(r)
		}
		vrt.Assert("Dict", len(r.calls) == 1 && r.calls[0].method == "AddObject" && len(r.calls[0].fields) == 2 && r.calls[0].fields[0].key == "a" && r.calls[0].fields[0].val.(int64) == v && r.calls[0].fields[1].val.(string) == "x")
		same := len(fs) == len(keep)
		for i := range keep {
			same = same && fs[i].Equals(keep[i])
		}
		vrt.Assert("Dict:callers-slice-untouched", same)
		r2 := &vRecEnc{}
		Dict("k", fs...).AddTo(r2)
		vrt.Assert("Dict:second-use-delivers-the-same", vSameCalls(r.calls, r2.calls))
	case 4:
		Namespace("k").AddTo(r)
		_, ok := r.single("OpenNamespace", "k")
		vrt.Assert("Namespace", ok)
	case 5:
		Skip().AddTo(r)
		vrt.Assert("Skip", len(r.calls) == 0)
	case 6:
		Reflect("k", v).AddTo(r)
		g, ok := r.single("AddReflected", "k")
		vrt.Assert("Reflect", ok && g.(int64) == v)
	case 7:
		s := "s" + vrt.String("s", 1)
		Stringer("k", vStr{s}).AddTo(r)
		g, ok := r.single("AddString", "k")
		vrt.Assert("Stringer", ok && g.(string) == s)
	case 8:
		b := vrt.Bytes("b", 2)
		Binary("k", b).AddTo(r)
		g, ok := r.single("AddBinary", "k")
		vrt.Assert("Binary", ok && string(g.([]byte)) == string(b))
	case 9:
		b := vrt.Bytes("b", 2)
		if vrt.Choice("plural", 2) == 0 {
			ByteString("k", b).AddTo(r)
			g, ok := r.single("AddByteString", "k")
			vrt.Assert("ByteString", ok && string(g.([]byte)) == string(b))
		} else {
			ByteStrings("k", [][]byte{b, nil}).AddTo(r)
			el, ok := r.array("k")
			vrt.Assert("ByteStrings", ok && len(el) == 2 && string(el[0].val.([]byte)) == string(b) && len(el[1].val.([]byte)) == 0)
		}
	}
}

type vVerboseErr3 struct{ msg string }

func (e vVerboseErr3) Error() string { return e.msg }
func (e vVerboseErr3) Format(s fmt.State, verb rune) {
	if verb == 'v' && s.Flag('+') {
		fmt.Fprint(s, e.msg+" (verbose)")
		return
	}
	fmt.Fprint(s, e.msg)
}

type vGroupErr3 struct {
	msg  string
	errs []error
}

func (e vGroupErr3) Error() string   { return e.msg }
func (e vGroupErr3) Errors() []error { return e.errs }

type vPtrErr3 struct{ msg string }

func (e *vPtrErr3) Error() string { return e.msg }

//verif: prop=C03 bounds="error constructors: nil error skipped, Error/NamedError deliver message under the key, Errors skips nil elements; each element of Errors / Any([]error) (plain, verbose fmt.Formatter, grouped, typed-nil pointer) is delivered exactly as Error(element) delivers it"
func VC03_Errors() {
	r := &vRecEnc{}
	msg := "e" + vrt.String("m", 1)
	switch vrt.Choice("ctor", 6) {
	case 5:
		// every element of Errors / Any([]error) is delivered exactly the way Error(element) delivers it,
		// whatever the element's dynamic type: verbose (fmt.Formatter), grouped (Errors() []error),
		// typed-nil pointer, plain
		elems := []error{errors.New(msg), vVerboseErr3{msg}, vGroupErr3{msg, []error{errors.New("c1"), errors.New("c2")}}, (*vPtrErr3)(nil)}
		e := elems[vrt.Choice("elem", len(elems))]
		if vrt.Choice("via", 2) == 0 {
			Errors("k", []error{e}).AddTo(r)
		} else {
			Any("k", []error{e}).AddTo(r)
		}
		el, ok := r.array("k")
		want := &vRecEnc{}
		Error(e).AddTo(want)
		vrt.Assert("Errors-element-delivered-like-Error", ok && len(el) == 1 && vSameCalls(el[0].fields, want.calls))
	case 0:
		Error(nil).AddTo(r)
		vrt.Assert("Error(nil)-skipped", len(r.calls) == 0)
	case 1:
		NamedError("k", nil).AddTo(r)
		vrt.Assert("NamedError(nil)-skipped", len(r.calls) == 0)
	case 2:
		Error(errors.New(msg)).AddTo(r)
		g, ok := r.single("AddString", "error")
		vrt.Assert("Error", ok && g.(string) == msg)
	case 3:
		NamedError("k", errors.New(msg)).AddTo(r)
		g, ok := r.single("AddString", "k")
		vrt.Assert("NamedError", ok && g.(string) == msg)
	case 4:
		Errors("k", []error{errors.New(msg), nil, errors.New("z")}).AddTo(r)
		el, ok := r.array("k")
		vrt.Assert("Errors", ok && len(el) == 2 && len(el[0].fields) == 1 && el[0].fields[0].key == "error" && el[0].fields[0].val.(string) == msg)
	}
}

//verif: prop=C03 bounds="generic slice constructors at two instantiations each: Objects[vObj|*vObjP], ObjectValues[vObjP], Stringers[vStr|*vStr]; 0..2 elements with symbolic payload; Stringers over 3 pointer elements with every subset of them nil"
func VC03_Generics() {
	n := vrt.Choice("len", 3)
	v := vrt.Int64("v")
	r := &vRecEnc{}
	switch vrt.Choice("ctor", 6) {
	case 5: // pointer elements, any subset of them nil: a nil Stringer is the text <nil>, and the others are what they are
		t := "t" + vrt.String("t", 1)
		texts := []string{t, "u", "w"}
		mask := vrt.Choice("nils", 8)
		s := make([]*vStr, 3)
		for i := range s {
			if mask&(1<<uint(i)) == 0 {
				s[i] = &vStr{texts[i]}
			}
		}
		Stringers("k", s).AddTo(r)
		el, ok := r.array("k")
		ok = ok && len(el) == 3 && len(r.calls) == 1
		for i := 0; ok && i < 3; i++ {
			want := texts[i]
			if s[i] == nil {
				want = "<nil>"
			}
			g, isStr := el[i].val.(string)
			ok = isStr && g == want
		}
		vrt.Assert("Stringers[*vStr]-every-element-delivered-nil-as-<nil>", ok)
	case 0:
		s := []vObj{{v}, {2}}[:n]
		Objects("k", s).AddTo(r)
		el, ok := r.array("k")
		vrt.Assert("Objects[vObj]", ok && len(el) == n && (n == 0 || el[0].fields[0].val.(int64) == v))
	case 1:
		s := []*vObjP{{v}, {2}}[:n]
		Objects("k", s).AddTo(r)
		el, ok := r.array("k")
		vrt.Assert("Objects[*vObjP]", ok && len(el) == n && (n == 0 || el[0].fields[0].val.(int64) == v))
	case 2:
		s := []vObjP{{v}, {2}}[:n]
		ObjectValues("k", s).AddTo(r)
		el, ok := r.array("k")
		vrt.Assert("ObjectValues[vObjP]", ok && len(el) == n && (n == 0 || el[0].fields[0].val.(int64) == v))
	case 3:
		t := "t" + vrt.String("t", 1)
		s := []vStr{{t}, {"u"}}[:n]
		Stringers("k", s).AddTo(r)
		el, ok := r.array("k")
		vrt.Assert("Stringers[vStr]", ok && len(el) == n && (n == 0 || el[0].val.(string) == t))
	case 4:
		t := "t" + vrt.String("t", 1)
		s := []*vStr{{t}, {"u"}}[:n]
		Stringers("k", s).AddTo(r)
		el, ok := r.array("k")
		vrt.Assert("Stringers[*vStr]", ok && len(el) == n && (n == 0 || el[0].val.(string) == t))
	}
}

// vLoc picks a location kind.
func vLoc() *time.Location {
	switch vrt.Choice("loc", 3) {
	case 1:
		return time.FixedZone("X", 3600)
	case 2:
		return time.Local
	}
	return time.UTC
}

//verif: prop=C03 bounds="Time/Timep/Times: seconds symbolic inside the int64-nanosecond range x nanoseconds in {0,1,999999999} and two instants outside it plus symbolic seconds far outside it, where UnixNano wraps (TimeFull path), locations UTC/Local/FixedZone: delivered time Equal to the input with the same location"
func VC03_Time() {
	vrt.SolverHint("int") // (sec*1e9+nsec)/1e9 round trips
	var t time.Time
	switch vrt.Choice("range", 5) {
	case 4:
		// seconds symbolic far outside the int64-nanosecond range (where UnixNano wraps around), up to about
		// year +-36000: the full-time representation must carry the instant
		sec := vrt.Int64("farsec")
		vrt.Assume(sec > -(1<<40) && sec < 1<<40)
		vrt.Assume(sec > 9300000000 || sec < -9300000000)
		t = time.Unix(sec, 0)
	case 0:
		// seconds symbolic over the whole int64-nanosecond range, nanoseconds from the boundary menu (a symbolic
		// nanosecond part puts a 30-bit mask under the division by 1e9, which no back end decides in time)
		sec := vrt.Int64("sec")
		nsec := []int64{0, 1, 999999999}[vrt.Choice("nsec", 3)]
		vrt.Assume(sec > -9000000000 && sec < 9000000000)
		t = time.Unix(sec, nsec)
	case 1:
		t = time.Time{} // zero time: outside the range
	case 2:
		t = time.Unix(1<<40, 5) // far future: outside the range
	case 3:
		t = time.Unix(0, 1<<63-1) // boundary
	}
	t = t.In(vLoc())
	r := &vRecEnc{}
	var g interface{}
	var ok bool
	switch vrt.Choice("ctor", 3) {
	case 0:
		Time("k", t).AddTo(r)
		g, ok = r.single("AddTime", "k")
	case 1:
		Timep("k", &t).AddTo(r)
		g, ok = r.single("AddTime", "k")
	case 2:
		Times("k", []time.Time{t}).AddTo(r)
		el, aok := r.array("k")
		if aok && len(el) == 1 && el[0].method == "AppendTime" {
			g, ok = el[0].val, true
		}
	}
	vrt.Assert("one-time-delivered", ok)
	if ok {
		got := g.(time.Time)
		vrt.Assert("same-instant", got.Equal(t))
		vrt.Assert("same-location", got.Location().String() == t.Location().String())
	}
}

// Equals: reflexive, symmetric, never panics, fields built twice from equal inputs are equal.
//
//verif: prop=C03 bounds="Field.Equals over pairs from a 16-template menu incl. uncomparable dynamic types (slice-typed Stringer, Inline(Dict)), comparable structs/arrays that carry an uncomparable value behind an interface (Reflect, Error, Stringer payloads), NaN floats/complex, errors, arrays, binary; payloads symbolic; reflexivity, symmetry, and equality of two fields built separately from the same inputs"
func VC03_Equals() {
	memo := map[string]uint64{}
	i64 := func(n string) int64 {
		if v, ok := memo[n]; ok {
			return int64(v)
		}
		v := vrt.Int64(n)
		memo[n] = uint64(v)
		return v
	}
	f64 := func(n string) float64 {
		if v, ok := memo[n]; ok {
			return math.Float64frombits(v)
		}
		v := vrt.Float64(n)
		memo[n] = math.Float64bits(v)
		return v
	}
	b1 := func(n string) byte {
		if v, ok := memo[n]; ok {
			return byte(v)
		}
		v := vrt.Byte(n)
		memo[n] = uint64(v)
		return v
	}
	build := func(id string, t int) Field {
		switch t {
		case 0:
			return Int64("k", i64(id+".i"))
		case 1:
			return String("k", string([]byte{b1(id + ".s")}))
		case 2:
			vrt.Tag("payload=float64")
			return Float64("k", f64(id+".f"))
		case 3:
			vrt.Tag("payload=complex128")
			return Complex128("k", complex(f64(id+".re"), 1))
		case 4:
			return Binary("k", []byte{b1(id + ".b")})
		case 5:
			return Error(errors.New("x"))
		case 6:
			vrt.Tag("payload=uncomparable-stringer")
			return Stringer("k", vSliceStringer{"a"})
		case 7:
			vrt.Tag("payload=inline-dict")
			return Inline(dictObject{Int("a", 1)})
		case 8:
			return Ints("k", []int{1, 2})
		case 9:
			return Object("k", vObj{i64(id + ".o")})
		case 10:
			vrt.Tag("payload=reflect-nan")
			return Reflect("k", f64(id+".rf"))
		case 11:
			return Time("k", time.Unix(i64(id+".sec")%1000, 0))
		case 12:
			vrt.Tag("payload=reflect-struct-with-uncomparable-inside")
			return Reflect("k", vBoxed{Tag: "t", V: []int{1}})
		case 13:
			vrt.Tag("payload=error-struct-with-uncomparable-inside")
			return NamedError("k", vOpErr{Op: "read", Cause: vErrList{errors.New("a")}})
		case 14:
			vrt.Tag("payload=stringer-array-with-uncomparable-inside")
			return Stringer("k", vBoxedArr{vSliceStringer{"z"}})
		default:
			vrt.Tag("payload=object-struct-with-map-inside")
			return Object("k", vObjBoxed{V: map[string]int{"a": 1}})
		}
	}
	ta := vrt.Choice("a.t", 16)
	a := build("a", ta)
	switch vrt.Choice("mode", 3) {
	case 0:
		vrt.Assert("reflexive", a.Equals(a))
	case 1:
		// a second field built separately from the same inputs
		a2 := build("a", ta)
		if ta == 5 || ta == 13 {
			return // errors.New yields a fresh pointer each time: distinct identities are not "the same input"
		}
		vrt.Assert("same-inputs-equal", a.Equals(a2) && a2.Equals(a))
	default:
		b := build("b", vrt.Choice("b.t", 16))
		vrt.Assert("symmetric", a.Equals(b) == b.Equals(a))
	}
}

// vBoxed is comparable as a type, but == panics when V holds a slice.
type vBoxed struct {
	Tag string
	V   interface{}
}

type vErrList []error

func (l vErrList) Error() string { return fmt.Sprint(len(l)) }

type vOpErr struct {
	Op    string
	Cause error
}

func (e vOpErr) Error() string { return e.Op + ": " + e.Cause.Error() }

type vBoxedArr [1]fmt.Stringer

func (a vBoxedArr) String() string { return a[0].String() }

type vObjBoxed struct{ V interface{} }

func (o vObjBoxed) MarshalLogObject(enc zapcore.ObjectEncoder) error { return nil }

func vSameVal(a, b interface{}) bool {
	switch x := a.(type) {
	case nil:
		return b == nil
	case bool:
		y, ok := b.(bool)
		return ok && x == y
	case int:
		y, ok := b.(int)
		return ok && x == y
	case int8:
		y, ok := b.(int8)
		return ok && x == y
	case int16:
		y, ok := b.(int16)
		return ok && x == y
	case int32:
		y, ok := b.(int32)
		return ok && x == y
	case int64:
		y, ok := b.(int64)
		return ok && x == y
	case uint:
		y, ok := b.(uint)
		return ok && x == y
	case uint8:
		y, ok := b.(uint8)
		return ok && x == y
	case uint16:
		y, ok := b.(uint16)
		return ok && x == y
	case uint32:
		y, ok := b.(uint32)
		return ok && x == y
	case uint64:
		y, ok := b.(uint64)
		return ok && x == y
	case uintptr:
		y, ok := b.(uintptr)
		return ok && x == y
	case float32:
		y, ok := b.(float32)
		return ok && math.Float32bits(x) == math.Float32bits(y)
	case float64:
		y, ok := b.(float64)
		return ok && math.Float64bits(x) == math.Float64bits(y)
	case complex64:
		y, ok := b.(complex64)
		return ok && math.Float32bits(real(x)) == math.Float32bits(real(y)) && math.Float32bits(imag(x)) == math.Float32bits(imag(y))
	case complex128:
		y, ok := b.(complex128)
		return ok && math.Float64bits(real(x)) == math.Float64bits(real(y)) && math.Float64bits(imag(x)) == math.Float64bits(imag(y))
	case string:
		y, ok := b.(string)
		return ok && x == y
	case []byte:
		y, ok := b.([]byte)
		return ok && string(x) == string(y)
	case time.Duration:
		y, ok := b.(time.Duration)
		return ok && x == y
	case time.Time:
		y, ok := b.(time.Time)
		return ok && x.Equal(y)
	}
	return reflect.DeepEqual(a, b)
}

func vSameCalls(a, b []vCall) bool {
	if len(a) != len(b) {
		return false
	}
	for i := range a {
		if a[i].method != b[i].method || a[i].key != b[i].key {
			return false
		}
		if a[i].elems != nil || a[i].fields != nil || b[i].elems != nil || b[i].fields != nil {
			if !vSameCalls(a[i].elems, b[i].elems) || !vSameCalls(a[i].fields, b[i].fields) {
				return false
			}
			continue
		}
		if !vSameVal(a[i].val, b[i].val) {
			return false
		}
	}
	return true
}

type vOther struct{ x int }

//verif: prop=C03 bounds="zap.Any for every case type of its type switch (enumerated from the source): same field type and same encoder calls as the constructor selected independently by parameter type; other dynamic types fall back to reflection"
func VC03_Any() {
	i := vrt.Choice("case", vAnyCases+1)
	if i == vAnyCases {
		f := Any("k", vOther{3})
		vrt.Assert("Any:other-type-falls-back-to-reflection", f.Type == zapcore.ReflectType)
		return
	}
	a, c, name := vAnyCase(i)
	vrt.Tag("type=" + name)
	vrt.Assert("Any:same-field-type-as-typed-constructor", a.Type == c.Type && a.Key == c.Key)
	ra, rc := &vRecEnc{}, &vRecEnc{}
	a.AddTo(ra)
	c.AddTo(rc)
	vrt.Assert("Any:same-representation-as-typed-constructor", vSameCalls(ra.calls, rc.calls))
}
