//go:build verif

package zap

import (
	"errors"
	"fmt"

	vrt "go.uber.org/zap/internal/vrt"
	"go.uber.org/zap/zapcore"
)

// vArgs builds an argument list of length n whose element kinds are chosen independently.
// kinds: 0 typed Field, 1 bare error, 2 string key, 3 non-string key, 4 nil, 5 other value.
func vArgs(n int) (args []interface{}, kinds []int) {
	for i := 0; i < n; i++ {
		k := vrt.Choice(vName("kind", i), vArgKinds)
		kinds = append(kinds, k)
		switch k {
		case 0:
			args = append(args, Int64(vName("f", i), vrt.Int64(vName("fv", i))))
		case 1:
			args = append(args, errors.New(vName("err", i)))
		case 2:
			args = append(args, vName("key", i))
		case 3:
			args = append(args, i*10+1)
		case 4:
			args = append(args, nil)
		case 5:
			args = append(args, vrt.Int64(vName("val", i)))
		case 6:
			args = append(args, vSharedErr) // the very same error value wherever it occurs
		case 7:
			args = append(args, vListErr{"a", "b"}) // an error whose dynamic type is not comparable
		case 8:
			args = append(args, Skip()) // a typed field that encodes to nothing is still a typed field
		case 9:
			args = append(args, NamedError(vName("nilerr", i), nil)) // what zap.Error(err) gives for a nil err
		case 10:
			args = append(args, error((*vPtrErr)(nil))) // a non-nil error interface holding a nil pointer: still an error argument
		}
	}
	return
}

const vArgKinds = 11

// vArgSame: the caller's argument is still the value the caller put there.
func vArgSame(a, b interface{}, kind int) bool {
	switch kind {
	case 0, 8, 9:
		fa, oka := a.(Field)
		fb, okb := b.(Field)
		return oka && okb && fa.Key == fb.Key && fa.Type == fb.Type && fa.Integer == fb.Integer && fa.String == fb.String
	case 7:
		la, oka := a.(vListErr)
		lb, okb := b.(vListErr)
		return oka && okb && len(la) == len(lb)
	case 4:
		return a == nil && b == nil
	}
	return a == b
}

var vSharedErr = errors.New("shared")

type vListErr []string

func (l vListErr) Error() string { return "list" }

// vSweetenRef is the positional reference: what fields and which diagnostics the statement prescribes.
type vDiag struct {
	extraErrors []error       // bare errors after the first
	dangling    []interface{} // at most one
	badPairs    [][3]interface{}
}

// vRefErrField: an error argument (any non-nil error interface, whatever it holds) is an error field, written
// down here without going through the constructors under test.
func vRefErrField(key string, e error) Field {
	return Field{Key: key, Type: zapcore.ErrorType, Interface: e}
}

func vSweetenRef(args []interface{}) (fields []Field, d vDiag) {
	seenErr := false
	for i := 0; i < len(args); {
		if f, ok := args[i].(Field); ok {
			fields = append(fields, f)
			i++
			continue
		}
		if e, ok := args[i].(error); ok {
			if !seenErr {
				seenErr = true
				fields = append(fields, vRefErrField("error", e))
			} else {
				d.extraErrors = append(d.extraErrors, e)
			}
			i++
			continue
		}
		if i == len(args)-1 {
			d.dangling = append(d.dangling, args[i])
			break
		}
		if ks, ok := args[i].(string); ok {
			if ev, isErr := args[i+1].(error); isErr {
				fields = append(fields, vRefErrField(ks, ev))
			} else {
				fields = append(fields, Any(ks, args[i+1]))
			}
		} else {
			d.badPairs = append(d.badPairs, [3]interface{}{i, args[i], args[i+1]})
		}
		i += 2
	}
	return
}

func vFieldsSame(a, b []Field) bool {
	ra, rb := &vRecEnc{}, &vRecEnc{}
	for _, f := range a {
		f.AddTo(ra)
	}
	for _, f := range b {
		f.AddTo(rb)
	}
	return vSameCalls(ra.calls, rb.calls)
}

func vCheckSweeten(n int) {
	args, kinds := vArgs(n)
	orig := append([]interface{}(nil), args...)
	core := vNewCore("c", zapcore.DebugLevel)
	log := New(core).Sugar()
	via := vrt.Choice("via", 6)
	switch via {
	case 0:
		log.Infow("msg", args...)
	case 1:
		log.Debugw("msg", args...)
	case 2:
		log.Errorw("msg", args...)
	case 3:
		log.With(args...).Info("msg")
	case 4:
		log.WithLazy(args...).Warn("msg")
	case 5:
		log.Logw(zapcore.WarnLevel, "msg", args...)
	}
	for i := range orig {
		vrt.Assert("callers-argument-list-untouched", vArgSame(args[i], orig[i], kinds[i]))
	}
	want, diag := vSweetenRef(orig)
	var main []vWrite
	var multi, odd, nonstr []vWrite
	for _, w := range core.st.writes {
		switch w.ent.Message {
		case "msg":
			main = append(main, w)
		case _multipleErrMsg:
			multi = append(multi, w)
		case _oddNumberErrMsg:
			odd = append(odd, w)
		case _nonStringKeyErrMsg:
			nonstr = append(nonstr, w)
		default:
			vrt.Fail("unexpected-entry")
		}
	}
	vrt.Assert("main-entry-logged-once", len(main) == 1)
	if len(main) == 1 {
		vrt.Assert("well-formed-arguments-logged-in-order", vFieldsSame(main[0].fields, want))
		// typed fields pass through as they are, including those that encode to nothing
		same := len(main[0].fields) == len(want)
		for i := 0; same && i < len(want); i++ {
			same = main[0].fields[i].Type == want[i].Type && main[0].fields[i].Key == want[i].Key
		}
		vrt.Assert("typed-fields-pass-through-unchanged", same)
	}
	// diagnostics never vanish and identify the offending items
	vrt.Assert("one-diagnostic-per-extra-error", len(multi) == len(diag.extraErrors))
	for i := range diag.extraErrors {
		if i < len(multi) {
			vrt.Assert("extra-error-identified", multi[i].ent.Level == zapcore.ErrorLevel && vFieldsSame(multi[i].fields[len(multi[i].fields)-1:], []Field{vRefErrField("error", diag.extraErrors[i])}))
		}
	}
	vrt.Assert("dangling-key-reported", len(odd) == len(diag.dangling))
	if len(odd) == 1 && len(diag.dangling) == 1 {
		vrt.Assert("dangling-key-identified", odd[0].ent.Level == zapcore.ErrorLevel && vFieldsSame(odd[0].fields[len(odd[0].fields)-1:], []Field{Any("ignored", diag.dangling[0])}))
	}
	if len(diag.badPairs) == 0 {
		vrt.Assert("no-spurious-non-string-diagnostic", len(nonstr) == 0)
	} else {
		vrt.Assert("non-string-keys-reported-once", len(nonstr) == 1)
		if len(nonstr) == 1 {
			r := &vRecEnc{}
			last := nonstr[0].fields[len(nonstr[0].fields)-1]
			last.AddTo(r)
			el, ok := r.array("invalid")
			vrt.Assert("every-bad-pair-listed", ok && len(el) == len(diag.badPairs))
			if ok && len(el) == len(diag.badPairs) {
				for i, bp := range diag.badPairs {
					exp := &vRecEnc{}
					exp.AddInt64("position", int64(bp[0].(int)))
					Any("key", bp[1]).AddTo(exp)
					Any("value", bp[2]).AddTo(exp)
					vrt.Assert("bad-pair-identified", vSameCalls(el[i].fields, exp.calls))
				}
			}
		}
	}
	vrt.Cover("done")
}

//verif: prop=C14 bounds="argument lists of length 0..3 over 11 element kinds (typed field, a typed no-op field (Skip, and Error of a nil error), bare error, a bare error that is a typed nil pointer, the same error value again, an error of uncomparable dynamic type, string key, non-string key, nil, other value; int64 payloads symbolic) through Infow/Debugw/Errorw/Logw/With/WithLazy; the caller's argument slice is unchanged afterwards"
func VC14Sweeten3() { vCheckSweeten(vrt.IntRange("n", 0, 3)) }

//verif: prop=C14 tier=thorough bounds="argument lists of length 4 and 5"
func VC14Sweeten5() { vCheckSweeten(vrt.IntRange("n", 4, 5)) }

// vFmtErr formats itself: fmt prints "E42: boom", Error() alone says "boom".
type vFmtErr struct{ code int }

func (e vFmtErr) Error() string { return "boom" }
func (e vFmtErr) Format(s fmt.State, verb rune) {
	fmt.Fprintf(s, "E%d: boom", e.code)
}

type vPtrErr struct{ msg string }

func (e *vPtrErr) Error() string { return e.msg }

type vStr14 struct{ s string }

func (v vStr14) String() string { return "<" + v.s + ">" }

// Messages of the print-, printf- and println-style methods.
//
//verif: prop=C14 bounds="Info/Infof/Infoln (and Debug/Warn/Error variants) with 0..2 arguments from {symbolic 1-byte string, symbolic int64, error, nil, error implementing fmt.Formatter, typed-nil pointer error, fmt.Stringer}: message equals fmt.Sprint / fmt.Sprintf(template,...) (template verbatim without arguments) / fmt.Sprintln minus the newline, as computed by the same formatter"
func VC14Messages() {
	n := vrt.Choice("n", 3)
	var args []interface{}
	for i := 0; i < n; i++ {
		switch vrt.Choice(vName("a", i), 7) {
		case 4:
			args = append(args, vFmtErr{code: 42}) // an error that is also a fmt.Formatter
		case 5:
			args = append(args, (*vPtrErr)(nil)) // typed nil error whose Error method dereferences
		case 6:
			args = append(args, vStr14{s: "str"}) // a fmt.Stringer
		case 0:
			args = append(args, "s"+vrt.String(vName("s", i), 1))
		case 1:
			args = append(args, vrt.Int64(vName("i", i)))
		case 2:
			args = append(args, errors.New("e"))
		case 3:
			args = append(args, nil)
		}
	}
	core := vNewCore("c", zapcore.DebugLevel)
	log := New(core).Sugar()
	template := []string{"", "plain %% text", "%v|%v"}[vrt.Choice("tmpl", 3)]
	var want string
	switch vrt.Choice("style", 3) {
	case 0:
		[]func(...interface{}){log.Info, log.Debug, log.Warn, log.Error}[vrt.Choice("lvl", 4)](args...)
		want = fmt.Sprint(args...)
	case 1:
		[]func(string, ...interface{}){log.Infof, log.Debugf, log.Warnf, log.Errorf}[vrt.Choice("lvl", 4)](template, args...)
		if len(args) == 0 {
			want = template
		} else if template == "" {
			want = fmt.Sprint(args...)
		} else {
			want = fmt.Sprintf(template, args...)
		}
	case 2:
		[]func(...interface{}){log.Infoln, log.Debugln, log.Warnln, log.Errorln}[vrt.Choice("lvl", 4)](args...)
		want = fmt.Sprintln(args...)
		want = want[:len(want)-1]
	}
	vrt.Assert("one-entry", len(core.st.writes) == 1)
	if len(core.st.writes) == 1 {
		vrt.Observe("message", core.st.writes[0].ent.Message)
		vrt.Assert("message-as-formatted", core.st.writes[0].ent.Message == want)
	}
}
