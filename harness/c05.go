//go:build verif

package zap

import (
	vrt "go.uber.org/zap/internal/vrt"
	"go.uber.org/zap/zapcore"
)

type vCountingObj struct{ calls *int }

func (o vCountingObj) MarshalLogObject(enc zapcore.ObjectEncoder) error {
	*o.calls++
	enc.AddInt("x", 1)
	return nil
}

// A shared AtomicLevel changed between calls is honoured by every derived logger on its next call;
// a disabled entry causes no marshaling, no hook call and no sink activity; reported levels agree.
//
//verif: prop=C05 bounds="JSON IO core behind an AtomicLevel; 3 steps, each SetLevel(any int8), UnmarshalText(a level name) or a log call (Logger.Log/Check, Sugared Logw/Logf, at any level below DPanic) through the root, a With child, a Named child or a sugared child; entry hook and a counting marshaler field"
func VC05Atomic() {
	al := NewAtomicLevelAt(zapcore.Level(vrt.Int8("initial")))
	sink := &vLineSink{}
	hooks := 0
	marshals := 0
	log := New(zapcore.NewCore(zapcore.NewJSONEncoder(zapcore.EncoderConfig{MessageKey: "m"}), sink, al),
		Hooks(func(zapcore.Entry) error { hooks++; return nil }), WithClock(vFixedClock{}))
	loggers := []*Logger{log, log.With(Int("a", 1)), log.Named("n")}
	sug := log.With(Int("b", 2)).Sugar()
	cur := al.Level()
	wantLines := 0
	for step := 0; step < 3; step++ {
		op := vrt.Choice(vName("op", step), 3)
		if op == 0 {
			nl := zapcore.Level(vrt.Int8(vName("set", step)))
			al.SetLevel(nl)
			cur = nl
			vrt.Assert("atomic-level-reads-back", al.Level() == nl)
			continue
		}
		if op == 2 {
			// the level changed through its text form (config reload, JSON/YAML/flag): same shared level
			k := vrt.Choice(vName("text", step), 3)
			text := []string{"debug", "WARN", "error"}[k]
			vrt.Assert("text-form-accepted", al.UnmarshalText([]byte(text)) == nil)
			cur = []zapcore.Level{DebugLevel, WarnLevel, ErrorLevel}[k]
			vrt.Assert("atomic-level-reads-back", al.Level() == cur)
			continue
		}
		l := zapcore.Level(vrt.Int8(vName("lvl", step)))
		vrt.Assume(l < DPanicLevel)
		before, hb := marshals, hooks
		field := Object("o", vCountingObj{&marshals})
		switch vrt.Choice(vName("via", step), 5) {
		case 0, 1, 2:
			loggers[vrt.Choice(vName("who", step), 3)].Log(l, "m", field)
		case 3:
			if ce := log.Check(l, "m"); ce != nil {
				ce.Write(field)
			}
		case 4:
			sug.Logw(l, "m", field)
		}
		enabled := l >= cur
		if enabled {
			wantLines++
			vrt.Assert("enabled:written-once", len(sink.lines) == wantLines)
			vrt.Assert("enabled:hook-once", hooks == hb+1)
			vrt.Assert("enabled:marshaled", marshals == before+1)
		} else {
			vrt.Assert("disabled:no-sink-activity", len(sink.lines) == wantLines)
			vrt.Assert("disabled:no-hook", hooks == hb)
			vrt.Assert("disabled:no-marshaling", marshals == before)
		}
		for _, lg := range loggers {
			vrt.Assert("core-enabled-follows-atomic-level", lg.Core().Enabled(l) == enabled)
		}
	}
	// reported level consistent with delivery at every valid level
	rep := log.Level()
	for lv := zapcore.DebugLevel; lv <= zapcore.FatalLevel; lv++ {
		vrt.Assert("reported-level-consistent", (lv >= rep) == (lv >= cur))
	}
	vrt.Observe("lines", len(sink.lines))
	vrt.Observe("level", int8(rep))
	vrt.Assert("levelof-agrees", zapcore.LevelOf(log.Core()) == rep)
	vrt.Cover("done")
}

// IncreaseLevel option: only ever narrows; an invalid increase leaves the logger unchanged.
//
//verif: prop=C05 bounds="zap.IncreaseLevel(threshold any int8) over a core with threshold any int8; entry level any int8 below DPanic"
func VC05IncreaseOption() {
	base := zapcore.Level(vrt.Int8("base"))
	inc := zapcore.Level(vrt.Int8("inc"))
	rec := vNewCore("rec", base)
	errOut := &vLineSink{}
	log := New(rec, ErrorOutput(errOut), IncreaseLevel(inc), WithClock(vFixedClock{}))
	l := zapcore.Level(vrt.Int8("lvl"))
	vrt.Assume(l < DPanicLevel)
	log.Log(l, "m")
	// valid increase: inc enables no valid level that base does not
	valid := true
	for lv := zapcore.DebugLevel; lv <= zapcore.FatalLevel; lv++ {
		if lv >= inc && !(lv >= base) {
			valid = false
		}
	}
	want := l >= base
	if valid {
		want = want && l >= inc
	} else {
		vrt.Assert("invalid-increase-reported", len(errOut.lines) == 1)
	}
	vrt.Observe("delivered", len(rec.st.writes))
	vrt.Assert("only-narrows", (len(rec.st.writes) == 1) == want)
	vrt.Assert("enabled-consistent", log.Core().Enabled(l) == want)
}
