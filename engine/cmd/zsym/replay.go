package main

// Native replay: the same harness, compiled by the real toolchain against the real
// tree (go test -overlay), fed the solver's inputs.

import (
	"bytes"
	"encoding/json"
	"fmt"
	"go/ast"
	"go/parser"
	"go/token"
	"os"
	"os/exec"
	"path/filepath"
	"sort"
	"strings"
	"time"
)

type replayFile struct {
	Property string            `json:"property"`
	Harness  string            `json:"harness"`
	Pkg      string            `json:"pkg"`
	Module   string            `json:"module"`
	Label    string            `json:"label"`
	Kind     string            `json:"kind"`
	Detail   string            `json:"detail"`
	Tags     []string          `json:"tags"`
	Inputs   map[string]uint64 `json:"inputs"`
	Kinds    map[string]string `json:"kinds"`
	Order    []string          `json:"order"`
	Tier     int               `json:"tier"`
	Trail    string            `json:"trail"`
	Expect   []string          `json:"expect_observed,omitempty"`
}

type replayResult struct {
	File     string   `json:"file"`
	Failures []string `json:"failures"`
	Observed []string `json:"observed"`
	Panic    string   `json:"panic"`
	Assumed  bool     `json:"assumed"`
}

func (r replayResult) confirms(label, kind string) bool {
	switch kind {
	case "panic":
		return r.Panic != ""
	case "race", "deadlock":
		return false
	}
	for _, f := range r.Failures {
		if f == label {
			return true
		}
	}
	return false
}

const replayTestTmpl = `//go:build verif

package %s

import (
	"encoding/json"
	"fmt"
	"os"
	"strings"
	"testing"

	vrt "go.uber.org/zap/internal/vrt"
)

var zzVerifHarnesses = map[string]func(){
%s}

func TestZZVerifReplay(t *testing.T) {
	// results go to a file as well as to stdout: a harness may close or redirect the process's stdout
	var resFile *os.File
	if p := os.Getenv("VERIF_REPLAY_OUT"); p != "" {
		resFile, _ = os.OpenFile(p, os.O_WRONLY|os.O_APPEND|os.O_CREATE, 0o644)
	}
	for _, f := range strings.Split(os.Getenv("VERIF_REPLAY_FILES"), ",") {
		if f == "" {
			continue
		}
		if err := vrt.Load(f); err != nil {
			t.Fatal(err)
		}
		var rf struct{ Harness string }
		b, _ := os.ReadFile(f)
		_ = json.Unmarshal(b, &rf)
		h := zzVerifHarnesses[rf.Harness]
		res := map[string]interface{}{"file": f}
		if h == nil {
			res["panic"] = "no such harness " + rf.Harness
		} else {
			func() {
				defer func() {
					if r := recover(); r != nil {
						if vrt.AssumeFailed(r) {
							res["assumed"] = true
							return
						}
						res["panic"] = fmt.Sprint(r)
					}
				}()
				h()
			}()
		}
		res["failures"] = vrt.Failures()
		res["observed"] = vrt.Observed()
		out, _ := json.Marshal(res)
		fmt.Printf("\nVERIF-REPLAY %%s\n", out)
		if resFile != nil {
			fmt.Fprintf(resFile, "\nVERIF-REPLAY %%s\n", out)
		}
	}
}
`

// harnessFuncs lists the niladic top-level functions with a //verif: directive in a harness dir.
func harnessFuncs(dir string) (pkgName string, funcs []string, err error) {
	ents, err := os.ReadDir(dir)
	if err != nil {
		return "", nil, err
	}
	for _, e := range ents {
		if e.IsDir() || !strings.HasSuffix(e.Name(), ".go") {
			continue
		}
		fset := token.NewFileSet()
		f, err := parser.ParseFile(fset, filepath.Join(dir, e.Name()), nil, parser.ParseComments)
		if err != nil {
			return "", nil, err
		}
		pkgName = f.Name.Name
		for _, d := range f.Decls {
			fd, ok := d.(*ast.FuncDecl)
			if !ok || fd.Doc == nil || fd.Recv != nil {
				continue
			}
			for _, c := range fd.Doc.List {
				if directiveRe.MatchString(c.Text) {
					funcs = append(funcs, fd.Name.Name)
					break
				}
			}
		}
	}
	sort.Strings(funcs)
	return
}

// nativeReplay runs the given replay files (all for harnesses of package rel) natively.
func nativeReplay(rel, module string, files []string) (map[string]replayResult, error) {
	dir := filepath.Join(harnessRoot(), rel)
	pkgName, funcs, err := harnessFuncs(dir)
	if err != nil {
		return nil, err
	}
	var reg strings.Builder
	for _, f := range funcs {
		fmt.Fprintf(&reg, "\t%q: %s,\n", f, f)
	}
	tmp, err := os.MkdirTemp("", "zsym-replay-")
	if err != nil {
		return nil, err
	}
	defer os.RemoveAll(tmp)
	testFile := filepath.Join(tmp, "zz_verif_replay_test.go")
	if err := os.WriteFile(testFile, []byte(fmt.Sprintf(replayTestTmpl, pkgName, reg.String())), 0o644); err != nil {
		return nil, err
	}
	_, paths, err := overlayFor(map[string]bool{rel: true})
	if err != nil {
		return nil, err
	}
	paths[filepath.Join(*flagRepo, rel, "zz_verif_replay_test.go")] = testFile
	ovJSON, _ := json.Marshal(map[string]interface{}{"Replace": paths})
	ovFile := filepath.Join(tmp, "overlay.json")
	if err := os.WriteFile(ovFile, ovJSON, 0o644); err != nil {
		return nil, err
	}
	wd := *flagRepo
	pattern := "./" + rel
	if module == "exp" {
		wd = filepath.Join(*flagRepo, "exp")
		pattern = "./" + strings.TrimPrefix(rel, "exp/")
	}
	cmd := exec.Command("go", "test", "-tags", "verif", "-vet=off", "-count=1", "-overlay", ovFile, "-run", "^TestZZVerifReplay$", "-timeout", "300s", "-v", pattern)
	cmd.Dir = wd
	resPath := filepath.Join(tmp, "results.txt")
	cmd.Env = append(os.Environ(), "VERIF_REPLAY_FILES="+strings.Join(files, ","), "VERIF_REPLAY_OUT="+resPath, "GOFLAGS=-mod=mod", "GOPROXY=off", "GOSUMDB=off", "GOTOOLCHAIN=local")
	var out bytes.Buffer
	cmd.Stdout = &out
	cmd.Stderr = &out
	t0 := time.Now()
	runErr := cmd.Run()
	_ = t0
	res := map[string]replayResult{}
	if fb, err := os.ReadFile(resPath); err == nil {
		out.WriteString("\n")
		out.Write(fb)
	}
	for _, line := range strings.Split(out.String(), "\n") {
		if !strings.HasPrefix(line, "VERIF-REPLAY ") {
			continue
		}
		var r replayResult
		if err := json.Unmarshal([]byte(strings.TrimPrefix(line, "VERIF-REPLAY ")), &r); err == nil {
			res[r.File] = r
		}
	}
	if len(res) < len(files) {
		// a crash (fatal error, os.Exit, deadlock) of the test binary: attribute to the first file without result
		tail := out.String()
		if len(tail) > 1500 {
			tail = tail[len(tail)-1500:]
		}
		for _, f := range files {
			if _, ok := res[f]; !ok {
				if len(files) == 1 || runErr != nil {
					res[f] = replayResult{File: f, Panic: "test binary died: " + tail}
				}
				break
			}
		}
		if len(res) == 0 {
			return res, fmt.Errorf("native replay produced no results: %v\n%s", runErr, tail)
		}
	}
	return res, nil
}
