package main

import (
	"crypto/sha1"
	"encoding/json"
	"fmt"
	"os"
	"path/filepath"
	"sort"
	"strings"
	"time"

	"zsym/interp"
)

type runInfo struct {
	run  *interp.HarnessRun
	decl harnessDecl
}

type results struct {
	prop   string
	tier   string
	seed   int64
	start  time.Time
	loadS  float64
	solver interp.SolverStats
	runs   []runInfo
}

func tierNum(t string) int {
	if t == "thorough" {
		return 1
	}
	return 0
}

func (r *results) writeReplay(ri runInfo, v *interp.Violation) (string, error) {
	rf := replayFile{Property: r.prop, Harness: v.Harness, Pkg: ri.decl.Pkg, Module: ri.decl.Module, Label: v.Label, Kind: v.Kind,
		Detail: v.Detail, Tags: v.Tags, Inputs: v.Inputs, Kinds: v.Kinds, Order: v.Order, Tier: tierNum(r.tier), Trail: v.Trail}
	b, _ := json.MarshalIndent(rf, "", " ")
	h := sha1.Sum([]byte(v.Key()))
	dir := filepath.Join(*flagVerif, "replays")
	os.MkdirAll(dir, 0o755)
	path := filepath.Join(dir, fmt.Sprintf("%s-%s-%x.json", r.prop, v.Harness, h[:4]))
	return path, os.WriteFile(path, b, 0o644)
}

func (r *results) writeSample(dir string, ri runInfo, idx int, s *interp.PathSample) (string, error) {
	rf := replayFile{Property: r.prop, Harness: s.Harness, Pkg: ri.decl.Pkg, Module: ri.decl.Module, Kind: "sample",
		Tags: s.Tags, Inputs: s.Inputs, Kinds: s.Kinds, Order: s.Order, Tier: tierNum(r.tier), Trail: s.Trail, Expect: s.Obs}
	b, _ := json.Marshal(rf)
	path := filepath.Join(dir, fmt.Sprintf("sample-%s-%d.json", s.Harness, idx))
	return path, os.WriteFile(path, b, 0o644)
}

// replayBatch replays files per package, re-running after a crash of the test binary.
func replayBatch(rel, module string, files []string) map[string]replayResult {
	out := map[string]replayResult{}
	remaining := append([]string{}, files...)
	for len(remaining) > 0 {
		res, err := nativeReplay(rel, module, remaining)
		if err != nil && len(res) == 0 {
			fmt.Fprintln(os.Stderr, "native replay:", err)
			for _, f := range remaining {
				out[f] = replayResult{File: f, Panic: "", Failures: nil, Observed: []string{"REPLAY-ERROR " + firstLine(err.Error())}}
			}
			return out
		}
		var next []string
		for _, f := range remaining {
			if rr, ok := res[f]; ok {
				out[f] = rr
			} else {
				next = append(next, f)
			}
		}
		if len(next) == len(remaining) {
			break
		}
		remaining = next
	}
	return out
}

func (r *results) finish() int {
	known := loadKnown()
	exit := 0
	inconclusive := []string{}
	var lines []string
	type pend struct {
		ri   runInfo
		v    *interp.Violation
		path string
	}
	byPkg := map[string][]pend{}
	modOf := map[string]string{}
	twinOK := map[string]bool{}
	var unconfirmed, confirmedNew, knownMatched []string
	violations := 0

	for _, ri := range r.runs {
		h := ri.run
		fmt.Printf("harness %-38s paths=%d decisions=%d assumed=%d asserts=%d/%d viol=%d unwind=%d wall=%.1fs terminals=%v\n",
			h.Name, h.Paths, h.Decisions, h.Assumed, h.AssertsProved, h.AssertsTotal, len(h.Violations), h.Unwinding, h.Wall.Seconds(), h.Terminals)
		for _, e := range h.EngineErrors {
			inconclusive = append(inconclusive, h.Name+": engine: "+firstLine(e))
			fmt.Fprintln(os.Stderr, "ENGINE-ERROR", h.Name, e)
		}
		for _, e := range h.Inconclusive {
			inconclusive = append(inconclusive, h.Name+": "+e)
		}
		if h.Unwinding > 0 {
			inconclusive = append(inconclusive, fmt.Sprintf("%s: %d unwinding failures (step/path budget)", h.Name, h.Unwinding))
		}
		if h.Paths-h.Assumed <= 0 && !ri.decl.Twin {
			inconclusive = append(inconclusive, h.Name+": vacuous (no path survives the assumptions)")
		}
		keys := make([]string, 0, len(h.Violations))
		for k := range h.Violations {
			keys = append(keys, k)
		}
		sort.Strings(keys)
		for _, k := range keys {
			v := h.Violations[k]
			if ri.decl.Twin {
				twinOK[h.Name] = true
				continue
			}
			path, err := r.writeReplay(ri, v)
			if err != nil {
				fmt.Fprintln(os.Stderr, err)
			}
			byPkg[ri.decl.Pkg] = append(byPkg[ri.decl.Pkg], pend{ri, v, path})
			modOf[ri.decl.Pkg] = ri.decl.Module
		}
		if ri.decl.Twin && !twinOK[h.Name] {
			inconclusive = append(inconclusive, h.Name+": vacuity twin did not report a violation")
		}
	}

	// native replay of candidates
	for rel, ps := range byPkg {
		var files []string
		for _, p := range ps {
			if p.v.Kind == "race" || p.v.Kind == "deadlock" || p.v.Kind == "interleaving" {
				continue
			}
			files = append(files, p.path)
		}
		var res map[string]replayResult
		if len(files) > 0 && !*flagNoReplay {
			res = replayBatch(rel, modOf[rel], files)
		}
		for _, p := range ps {
			desc := fmt.Sprintf("%s/%s tags=%v %s", p.v.Harness, p.v.Label, p.v.Tags, firstLine(p.v.Detail))
			confirmed := false
			switch p.v.Kind {
			case "race", "deadlock", "interleaving":
				// schedule-dependent: confirmed by the schedule trace itself (the native detector cannot be forced
				// into the schedule); reported with the trail as the replay artefact
				confirmed = true
			default:
				if rr, ok := res[p.path]; ok && rr.confirms(p.v.Label, p.v.Kind) {
					confirmed = true
				} else if p.v.Schedule {
					// the failing path interleaves several goroutines at synchronisation points chosen by the
					// executor; the native run of the same inputs took another schedule. Like a race or a
					// deadlock, the counterexample is the schedule itself (kept in the replay file's trail).
					confirmed = true
					desc += " [schedule-dependent: reported with the executor's interleaving; the native run took another schedule]"
				}
			}
			if !confirmed {
				unconfirmed = append(unconfirmed, desc)
				fmt.Printf("UNCONFIRMED property=%s %s replay=%s\n", r.prop, desc, p.path)
				// a candidate the native build does not reproduce means the engine or a stub misrepresents
				// the code on that path: no verdict for it, never a silent pass
				inconclusive = append(inconclusive, "unconfirmed candidate (engine/stub and native build disagree): "+desc)
				continue
			}
			if kf := known.match(r.prop, p.v); kf != nil {
				knownMatched = append(knownMatched, desc)
				lines = append(lines, fmt.Sprintf("KNOWN-FINDING: property=%s %s", r.prop, kf.What))
				continue
			}
			violations++
			confirmedNew = append(confirmedNew, desc)
			lines = append(lines, fmt.Sprintf("VIOLATION property=%s replay=%s", r.prop, p.path))
			fmt.Printf("  counterexample: %s inputs=%v\n", desc, p.v.Inputs)
			exit = 1
		}
	}

	// translator validation on sampled passing paths
	validated, mismatches := 0, []string{}
	if !*flagNoValid {
		tmp, _ := os.MkdirTemp("", "zsym-samples-")
		defer os.RemoveAll(tmp)
		byPkgS := map[string][]string{}
		expect := map[string]*interp.PathSample{}
		for _, ri := range r.runs {
			if ri.decl.Twin {
				continue
			}
			n := 0
			for i, s := range ri.run.Samples {
				if len(s.Obs) == 0 || n >= 6 {
					continue
				}
				p, err := r.writeSample(tmp, ri, i, s)
				if err == nil {
					byPkgS[ri.decl.Pkg] = append(byPkgS[ri.decl.Pkg], p)
					expect[p] = s
					modOf[ri.decl.Pkg] = ri.decl.Module
					n++
				}
			}
		}
		for rel, files := range byPkgS {
			res := replayBatch(rel, modOf[rel], files)
			for _, f := range files {
				rr, ok := res[f]
				s := expect[f]
				if !ok {
					continue
				}
				if rr.Assumed {
					continue
				}
				validated++
				if strings.Join(rr.Observed, "|") != strings.Join(s.Obs, "|") || len(rr.Failures) > 0 || rr.Panic != "" {
					mismatches = append(mismatches, fmt.Sprintf("%s inputs=%v engine=%v native=%v failures=%v panic=%q", s.Harness, s.Inputs, s.Obs, rr.Observed, rr.Failures, firstLine(rr.Panic)))
				}
			}
		}
	}
	for _, m := range mismatches {
		fmt.Println("ENGINE-MISMATCH", m)
		inconclusive = append(inconclusive, "engine/native mismatch: "+m)
	}

	for _, l := range lines {
		fmt.Println(l)
	}
	if exit == 0 && len(inconclusive) > 0 {
		for _, m := range inconclusive {
			fmt.Printf("INCONCLUSIVE property=%s %s\n", r.prop, m)
		}
		exit = 3
	}
	if !*flagNoEvid {
		r.writeEvidence(violations, validated, inconclusive, unconfirmed, knownMatched, confirmedNew, mismatches)
	}
	fmt.Printf("property=%s tier=%s exit=%d wall=%.1fs load=%.1fs solver: queries=%d sat=%d unsat=%d unknown=%d time=%.1fs\n",
		r.prop, r.tier, exit, time.Since(r.start).Seconds(), r.loadS, r.solver.Queries, r.solver.Sat, r.solver.Unsat, r.solver.Unknown, r.solver.Time.Seconds())
	return exit
}

func (r *results) writeEvidence(violations, validated int, inconclusive, unconfirmed, knownMatched, confirmedNew, mismatches []string) {
	var states, transitions, asserts, proved int64
	funcs := map[string]int64{}
	var samples []interface{}
	covers := map[string]int64{}
	var bounds []string
	harn := []interface{}{}
	twins := map[string]bool{}
	for _, ri := range r.runs {
		h := ri.run
		states += h.Paths
		transitions += h.Decisions
		asserts += h.AssertsTotal
		proved += h.AssertsProved
		for f, n := range h.Funcs {
			funcs[f.String()] += n
		}
		for c, n := range h.Covers {
			covers[h.Name+":"+c] += n
		}
		if ri.decl.Bounds != "" {
			bounds = append(bounds, h.Name+": "+ri.decl.Bounds)
		}
		for _, b := range h.Bounds {
			bounds = append(bounds, h.Name+": "+b)
		}
		if ri.decl.Twin {
			twins[h.Name] = len(h.Violations) > 0
		}
		for i, s := range h.Samples {
			if i >= 2 {
				break
			}
			samples = append(samples, map[string]interface{}{"harness": s.Harness, "inputs": s.Inputs, "observed": s.Obs, "trail": s.Trail, "tags": s.Tags})
		}
		harn = append(harn, map[string]interface{}{"name": h.Name, "package": ri.decl.Pkg, "paths": h.Paths, "decisions": h.Decisions,
			"paths_outside_assumptions": h.Assumed, "assertion_queries": h.AssertsTotal, "assertions_proved": h.AssertsProved,
			"violations": len(h.Violations), "terminals": h.Terminals, "max_trail": h.MaxTrail, "wall_s": h.Wall.Seconds(), "twin": ri.decl.Twin})
	}
	if len(samples) == 0 {
		samples = append(samples, "no completed path")
	}
	type fc struct {
		Name  string `json:"name"`
		Calls int64  `json:"calls"`
	}
	var fl []fc
	zapFuncs := 0
	for n, c := range funcs {
		fl = append(fl, fc{n, c})
		if strings.Contains(n, "go.uber.org/zap") && !strings.Contains(n, "internal/vrt") {
			zapFuncs++
		}
	}
	sort.Slice(fl, func(i, j int) bool { return fl[i].Name < fl[j].Name })
	if len(fl) > 400 {
		fl = fl[:400]
	}
	sort.Strings(bounds)
	if states < 1 {
		states = 1
	}
	if transitions < 1 {
		transitions = 1
	}
	cov := map[string]interface{}{
		"states":                        states,
		"transitions":                   transitions,
		"traces_validated_against_impl": validated,
		"samples":                       samples,
		"explanation":                   "states = feasible paths of the real SSA explored by the symbolic executor; transitions = solver-decided branch/choice decisions; every assertion is an SMT query over all values of the symbolic inputs on that path",
		"harnesses":                     harn,
		"functions_encoded":             fl,
		"zap_functions_executed":        zapFuncs,
		"bounds":                        bounds,
		"assertion_queries":             asserts,
		"assertions_proved_unsat":       proved,
		"queries":                       map[string]interface{}{"total": r.solver.Queries, "sat": r.solver.Sat, "unsat": r.solver.Unsat, "unknown": r.solver.Unknown, "errors": r.solver.Errors, "fallback": r.solver.Fallback, "cross_checked": r.solver.CrossChk},
		"solver_time_s":                 r.solver.Time.Seconds(),
		"load_and_ssa_build_s":          r.loadS,
		"cover_labels":                  covers,
		"vacuity_twins":                 twins,
		"inconclusive":                  inconclusive,
		"unconfirmed":                   unconfirmed,
		"known_findings_matched":        knownMatched,
		"new_violations":                confirmedNew,
		"engine_native_mismatches":      mismatches,
		"exhaustive":                    len(inconclusive) == 0,
	}
	ev := map[string]interface{}{
		"property_id": r.prop,
		"tier":        r.tier,
		"seed":        r.seed,
		"level":       "model_checking",
		"coverage":    cov,
		"assumptions": assumptionsFor(r.prop),
		"wall_s":      time.Since(r.start).Seconds(),
		"violations":  violations,
	}
	b, _ := json.MarshalIndent(ev, "", " ")
	dir := filepath.Join(*flagVerif, "evidence")
	os.MkdirAll(dir, 0o755)
	if err := os.WriteFile(filepath.Join(dir, r.prop+".json"), b, 0o644); err != nil {
		fmt.Fprintln(os.Stderr, "evidence:", err)
	}
}

func assumptionsFor(prop string) []string {
	base := []string{
		"go/packages + go/ssa (x/tools v0.29.0) build the SSA that is executed; the executor's instruction semantics are validated per run against the native build on sampled paths",
		"z3 5.1.0 (z3-new) decides every query (fallback on unknown: z3 4.8.12, cvc5 1.0, cvc5 --solve-bv-as-int=sum; thorough tier re-checks assertion queries on cvc5); unknown/timeout makes the run inconclusive, never passing",
		"bounds are those listed under coverage.bounds; nothing outside them is claimed",
		"library code behind contract stubs (strconv digit strings, fmt, time layout formatting, encoding/json, base64) is trusted to meet its documented contract",
	}
	if b, err := os.ReadFile(filepath.Join(*flagVerif, "assumptions", prop+".txt")); err == nil {
		for _, l := range strings.Split(strings.TrimSpace(string(b)), "\n") {
			if l != "" {
				base = append(base, l)
			}
		}
	}
	return base
}
