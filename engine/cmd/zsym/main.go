// zsym: solver-based checker for uber-go/zap properties. It loads /repo's current
// source with the harnesses of /verif/harness overlaid (nothing is written into
// /repo), builds SSA, symbolically executes each harness of the requested property
// over all decision trails, replays every counterexample natively against the real
// build, and writes /verif/evidence/<id>.json.
package main

import (
	"encoding/json"
	"flag"
	"fmt"
	"go/ast"
	"go/parser"
	"go/token"
	"os"
	"os/exec"
	"path/filepath"
	"regexp"
	"runtime/pprof"
	"sort"
	"strconv"
	"strings"
	"time"

	"golang.org/x/tools/go/packages"
	"golang.org/x/tools/go/ssa"
	"golang.org/x/tools/go/ssa/ssautil"

	"zsym/interp"
)

type harnessDecl struct {
	Pkg     string // directory relative to the harness root == relative to /repo ("zapcore", ".", "exp/zapslog")
	Func    string
	Props   []string
	Tier    string // "quick" (both tiers) or "thorough" (thorough only)
	File    string
	Bounds  string
	Twin    bool // vacuity twin: must report a violation
	Module  string // "" root module, "exp"
}

var (
	flagProp     = flag.String("prop", "", "property id (e.g. C13)")
	flagTier     = flag.String("tier", "quick", "quick|thorough")
	flagRepo     = flag.String("repo", "/repo", "repository root")
	flagVerif    = flag.String("verif", "/verif", "verification root")
	flagRun      = flag.String("run", "", "regexp restricting harness functions")
	flagWorkers  = flag.Int("workers", 0, "worker count (default: NumCPU)")
	flagNoReplay = flag.Bool("no-replay", false, "skip native replay (debugging only: violations are then reported as UNCONFIRMED)")
	flagNoValid  = flag.Bool("no-validate", false, "skip translator validation")
	flagTimeout  = flag.Duration("timeout", 0, "overall exploration deadline (0 = tier default)")
	flagVerbose  = flag.Bool("v", false, "verbose")
	flagReplay   = flag.String("replay", "", "replay one counterexample file natively and exit")
	flagList     = flag.Bool("list", false, "list harnesses and exit")
	flagNoEvid   = flag.Bool("no-evidence", false, "do not write the evidence file")
	flagSolverTO = flag.Duration("solver-timeout", 0, "per-query solver timeout")
	flagMaxPaths = flag.Int64("max-paths", 0, "per-harness path cap")
)

func main() {
	flag.Parse()
	if pf := os.Getenv("ZSYM_PROF"); pf != "" {
		f, _ := os.Create(pf)
		pprof.StartCPUProfile(f)
		defer pprof.StopCPUProfile()
	}
	os.Setenv("GOFLAGS", "-mod=mod")
	os.Setenv("GOPROXY", "off")
	os.Setenv("GOSUMDB", "off")
	os.Setenv("GOTOOLCHAIN", "local")
	if *flagReplay != "" {
		os.Exit(replayOne(*flagReplay))
	}
	if *flagProp == "" && !*flagList {
		fmt.Fprintln(os.Stderr, "usage: zsym -prop Cxx [-tier quick|thorough]")
		os.Exit(2)
	}
	code := run()
	pprof.StopCPUProfile()
	os.Exit(code)
}

func harnessRoot() string { return filepath.Join(*flagVerif, "harness") }

var directiveRe = regexp.MustCompile(`^//verif:\s*(.*)$`)

// discover parses the harness tree for //verif: directives.
func discover() ([]harnessDecl, error) {
	var out []harnessDecl
	root := harnessRoot()
	err := filepath.Walk(root, func(path string, info os.FileInfo, err error) error {
		if err != nil || info.IsDir() || !strings.HasSuffix(path, ".go") {
			return err
		}
		rel, _ := filepath.Rel(root, filepath.Dir(path))
		if rel == "vrt" {
			return nil
		}
		fset := token.NewFileSet()
		f, err := parser.ParseFile(fset, path, nil, parser.ParseComments)
		if err != nil {
			return err
		}
		for _, d := range f.Decls {
			fd, ok := d.(*ast.FuncDecl)
			if !ok || fd.Doc == nil || fd.Recv != nil {
				continue
			}
			for _, c := range fd.Doc.List {
				m := directiveRe.FindStringSubmatch(c.Text)
				if m == nil {
					continue
				}
				h := harnessDecl{Pkg: rel, Func: fd.Name.Name, Tier: "quick", File: path}
				if strings.HasPrefix(rel, "exp/") || rel == "exp" {
					h.Module = "exp"
				}
				for _, kv := range splitDirective(m[1]) {
					k, v, _ := strings.Cut(kv, "=")
					switch k {
					case "prop":
						h.Props = strings.Split(v, ",")
					case "tier":
						h.Tier = v
					case "bounds":
						h.Bounds = v
					case "twin":
						h.Twin = v == "true"
					}
				}
				out = append(out, h)
			}
		}
		return nil
	})
	sort.Slice(out, func(i, j int) bool {
		if out[i].Pkg != out[j].Pkg {
			return out[i].Pkg < out[j].Pkg
		}
		return out[i].Func < out[j].Func
	})
	return out, err
}

func splitDirective(s string) []string {
	var out []string
	var cur strings.Builder
	inq := false
	for _, r := range s {
		switch {
		case r == '"':
			inq = !inq
		case r == ' ' && !inq:
			if cur.Len() > 0 {
				out = append(out, cur.String())
				cur.Reset()
			}
		default:
			cur.WriteRune(r)
		}
	}
	if cur.Len() > 0 {
		out = append(out, cur.String())
	}
	return out
}

// overlayFor maps harness files into the repository tree.
func overlayFor(pkgs map[string]bool) (map[string][]byte, map[string]string, error) {
	ov := map[string][]byte{}
	paths := map[string]string{}
	add := func(virtual, real string) error {
		b, err := os.ReadFile(real)
		if err != nil {
			return err
		}
		ov[virtual] = b
		paths[virtual] = real
		return nil
	}
	vents, err := os.ReadDir(filepath.Join(harnessRoot(), "vrt"))
	if err != nil {
		return nil, nil, err
	}
	for _, e := range vents {
		if strings.HasSuffix(e.Name(), ".go") {
			if err := add(filepath.Join(*flagRepo, "internal/vrt", e.Name()), filepath.Join(harnessRoot(), "vrt", e.Name())); err != nil {
				return nil, nil, err
			}
		}
	}
	for rel := range pkgs {
		dir := filepath.Join(harnessRoot(), rel)
		ents, err := os.ReadDir(dir)
		if err != nil {
			return nil, nil, err
		}
		for _, e := range ents {
			if e.IsDir() || !strings.HasSuffix(e.Name(), ".go") {
				continue
			}
			if err := add(filepath.Join(*flagRepo, rel, "zz_verif_"+e.Name()), filepath.Join(dir, e.Name())); err != nil {
				return nil, nil, err
			}
		}
	}
	return ov, paths, nil
}

type loaded struct {
	P     *interp.Program
	prog  *ssa.Program
	pkgs  map[string]*ssa.Package // by rel dir
	loadS float64
}

func load(rels []string, module string) (*loaded, error) {
	t0 := time.Now()
	set := map[string]bool{}
	for _, r := range rels {
		set[r] = true
	}
	ov, _, err := overlayFor(set)
	if err != nil {
		return nil, err
	}
	dir := *flagRepo
	var patterns []string
	for _, r := range rels {
		if module == "exp" {
			patterns = append(patterns, "./"+strings.TrimPrefix(r, "exp/"))
		} else {
			patterns = append(patterns, "./"+r)
		}
	}
	if module == "exp" {
		dir = filepath.Join(*flagRepo, "exp")
	}
	cfg := &packages.Config{Mode: packages.LoadAllSyntax, Dir: dir, Overlay: ov, BuildFlags: []string{"-tags=verif"},
		Env: append(os.Environ(), "GOFLAGS=-mod=mod", "GOPROXY=off", "GOSUMDB=off", "GOTOOLCHAIN=local")}
	pkgs, err := packages.Load(cfg, patterns...)
	if err != nil {
		return nil, err
	}
	var errs []string
	packages.Visit(pkgs, nil, func(p *packages.Package) {
		for _, e := range p.Errors {
			errs = append(errs, e.Error())
		}
	})
	if len(errs) > 0 {
		return nil, fmt.Errorf("harness-build: %s", strings.Join(errs, "\n"))
	}
	prog, ssapkgs := ssautil.AllPackages(pkgs, ssa.InstantiateGenerics)
	prog.Build()
	L := &loaded{prog: prog, pkgs: map[string]*ssa.Package{}}
	var roots []*ssa.Package
	for i, p := range pkgs {
		rel, _ := filepath.Rel(*flagRepo, filepath.Dir(p.GoFiles[0]))
		L.pkgs[rel] = ssapkgs[i]
		roots = append(roots, ssapkgs[i])
	}
	L.P = interp.Prepare(prog, roots)
	L.P.SetRoots(roots)
	L.loadS = time.Since(t0).Seconds()
	return L, nil
}

type knownFinding struct {
	Property string   `json:"property"`
	Harness  string   `json:"harness"`
	Label    string   `json:"label"`
	Tags     []string `json:"tags"`
	What     string   `json:"what"`
}

type knownFile struct {
	Findings []knownFinding `json:"findings"`
	Fixed    []struct {
		Property string `json:"property"`
		Commit   string `json:"commit"`
		What     string `json:"what"`
	} `json:"fixed"`
}

func loadKnown() knownFile {
	var k knownFile
	b, err := os.ReadFile(filepath.Join(*flagVerif, "known_findings.json"))
	if err == nil {
		_ = json.Unmarshal(b, &k)
	}
	return k
}

func (k knownFile) match(prop string, v *interp.Violation) *knownFinding {
	for i := range k.Findings {
		f := &k.Findings[i]
		if f.Property != prop || f.Harness != v.Harness {
			continue
		}
		if f.Label != "" && f.Label != v.Label {
			continue
		}
		ok := true
		for _, t := range f.Tags {
			found := false
			for _, vt := range v.Tags {
				if vt == t {
					found = true
				}
			}
			if !found {
				ok = false
			}
		}
		if ok {
			return f
		}
	}
	return nil
}

func run() int {
	t0 := time.Now()
	all, err := discover()
	if err != nil {
		fmt.Fprintln(os.Stderr, "discover:", err)
		return 3
	}
	if *flagList {
		for _, h := range all {
			fmt.Printf("%-14s %-40s props=%v tier=%s twin=%v\n", h.Pkg, h.Func, h.Props, h.Tier, h.Twin)
		}
		return 0
	}
	tier := 0
	if *flagTier == "thorough" {
		tier = 1
	}
	var runRe *regexp.Regexp
	if *flagRun != "" {
		runRe = regexp.MustCompile(*flagRun)
	}
	var sel []harnessDecl
	for _, h := range all {
		ok := false
		for _, p := range h.Props {
			if p == *flagProp {
				ok = true
			}
		}
		if !ok || (h.Tier == "thorough" && tier == 0) {
			continue
		}
		if runRe != nil && !runRe.MatchString(h.Func) {
			continue
		}
		sel = append(sel, h)
	}
	if len(sel) == 0 {
		fmt.Printf("INCONCLUSIVE property=%s reason=no-harness\n", *flagProp)
		return 3
	}
	seed := int64(0)
	if s := os.Getenv("VERIF_SEED"); s != "" {
		seed, _ = strconv.ParseInt(s, 10, 64)
	}
	// group by module
	byModule := map[string][]harnessDecl{}
	for _, h := range sel {
		byModule[h.Module] = append(byModule[h.Module], h)
	}
	var mods []string
	for m := range byModule {
		mods = append(mods, m)
	}
	sort.Strings(mods)

	if old, _ := filepath.Glob(filepath.Join(*flagVerif, "replays", *flagProp+"-*.json")); runRe == nil {
		for _, f := range old {
			os.Remove(f)
		}
	}
	res := &results{prop: *flagProp, tier: *flagTier, seed: seed, start: t0}
	exit := 0
	for _, mod := range mods {
		hs := byModule[mod]
		relset := map[string]bool{}
		for _, h := range hs {
			relset[h.Pkg] = true
		}
		var rels []string
		for r := range relset {
			rels = append(rels, r)
		}
		sort.Strings(rels)
		L, err := load(rels, mod)
		if err != nil {
			fmt.Printf("INCONCLUSIVE property=%s reason=%s\n", *flagProp, firstLine(err.Error()))
			fmt.Fprintln(os.Stderr, err)
			return 3
		}
		res.loadS += L.loadS
		var runs []*interp.HarnessRun
		decls := map[string]harnessDecl{}
		for _, h := range hs {
			pkg := L.pkgs[h.Pkg]
			if pkg == nil {
				fmt.Printf("INCONCLUSIVE property=%s reason=harness-build package %s not loaded\n", *flagProp, h.Pkg)
				return 3
			}
			fn := pkg.Func(h.Func)
			if fn == nil {
				fmt.Printf("INCONCLUSIVE property=%s reason=harness-build %s.%s missing\n", *flagProp, h.Pkg, h.Func)
				return 3
			}
			runs = append(runs, interp.NewHarnessRun(h.Func, fn))
			decls[h.Func] = h
		}
		opts := &interp.Options{Workers: *flagWorkers, Tier: tier, Seed: seed, Trace: *flagVerbose, MaxPaths: *flagMaxPaths}
		opts.Solver.Timeout = 10 * time.Second
		dl := 20 * time.Minute
		if tier == 1 {
			opts.Solver.Timeout = 60 * time.Second
			opts.Solver.Cross = true
			dl = 120 * time.Minute
		}
		if *flagSolverTO != 0 {
			opts.Solver.Timeout = *flagSolverTO
		}
		if *flagTimeout != 0 {
			dl = *flagTimeout
		}
		opts.Deadline = time.Now().Add(dl)
		L.P.Explore(runs, opts)
		res.solver.Add(interp.TotalSolver)
		for _, r := range runs {
			res.runs = append(res.runs, runInfo{run: r, decl: decls[r.Name]})
		}
	}
	exit = res.finish()
	return exit
}

func firstLine(s string) string {
	if i := strings.IndexByte(s, '\n'); i >= 0 {
		return s[:i]
	}
	return s
}

// ---- native replay of one file (used by replay_cmd_template)

func replayOne(path string) int {
	b, err := os.ReadFile(path)
	if err != nil {
		fmt.Fprintln(os.Stderr, err)
		return 2
	}
	var rf replayFile
	if err := json.Unmarshal(b, &rf); err != nil {
		fmt.Fprintln(os.Stderr, err)
		return 2
	}
	out, err := nativeReplay(rf.Pkg, rf.Module, []string{path})
	if err != nil {
		fmt.Fprintln(os.Stderr, "replay failed to run:", err)
		return 2
	}
	r := out[path]
	fmt.Printf("harness=%s failures=%v panic=%q observed=%v\n", rf.Harness, r.Failures, r.Panic, r.Observed)
	if r.confirms(rf.Label, rf.Kind) {
		fmt.Printf("VIOLATION property=%s replay=%s\n", rf.Property, path)
		return 1
	}
	fmt.Println("not reproduced")
	return 0
}

var _ = exec.Command
