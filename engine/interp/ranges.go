package interp

// Interval facts about terms compared against constants on the path condition.
// They answer re-tested range conditions without a solver query.

import "math"

type rng struct {
	w        int
	slo, shi int64
	ulo, uhi uint64
}

func newRng(w int) *rng {
	r := &rng{w: w, ulo: 0, uhi: mask(w)}
	if w >= 64 {
		r.slo, r.shi = math.MinInt64, math.MaxInt64
	} else {
		r.slo, r.shi = -(int64(1) << uint(w-1)), int64(1)<<uint(w-1)-1
	}
	return r
}

func (r *rng) smax() int64 {
	if r.w >= 64 {
		return math.MaxInt64
	}
	return int64(1)<<uint(r.w-1) - 1
}

func (r *rng) sync() {
	if r.slo >= 0 {
		if uint64(r.slo) > r.ulo {
			r.ulo = uint64(r.slo)
		}
		if uint64(r.shi) < r.uhi {
			r.uhi = uint64(r.shi)
		}
	}
	if r.uhi <= uint64(r.smax()) {
		if int64(r.ulo) > r.slo {
			r.slo = int64(r.ulo)
		}
		if int64(r.uhi) < r.shi {
			r.shi = int64(r.uhi)
		}
	}
}

func (p *Path) rangeOf(t *Term, create bool) *rng {
	r := p.ranges[t.id]
	if r == nil && create {
		r = newRng(int(t.w))
		p.ranges[t.id] = r
	}
	return r
}

// learn records the interval consequences of a literal that now holds.
func (p *Path) learn(l *Term) {
	neg := false
	if l.op == OpNot {
		neg = true
		l = l.a
	}
	switch l.op {
	case OpEq, OpSlt, OpSle, OpUlt, OpUle:
	default:
		return
	}
	a, b := l.a, l.b
	if a.w == 0 {
		return
	}
	var t *Term
	var c uint64
	constRight := false
	switch {
	case b.op == OpConst && a.op != OpConst:
		t, c, constRight = a, b.val, true
	case a.op == OpConst && b.op != OpConst:
		t, c = b, a.val
	default:
		return
	}
	r := p.rangeOf(t, true)
	w := int(t.w)
	sc := sext64(c, w)
	switch l.op {
	case OpEq:
		if !neg {
			r.slo, r.shi, r.ulo, r.uhi = sc, sc, c, c
		} else {
			if r.ulo == c && r.ulo < r.uhi {
				r.ulo++
			}
			if r.uhi == c && r.uhi > r.ulo {
				r.uhi--
			}
			if r.slo == sc && r.slo < r.shi {
				r.slo++
			}
			if r.shi == sc && r.shi > r.slo {
				r.shi--
			}
		}
	case OpSlt, OpSle:
		// normalise to: t < k, t <= k, t > k, t >= k
		strict := l.op == OpSlt
		upper := constRight // t (<|<=) c
		if neg {
			// not(t < c) = t >= c ; not(t <= c) = t > c ; not(c < t) = t <= c ; not(c <= t) = t < c
			upper = !upper
			strict = !strict
		}
		if upper {
			k := sc
			if strict {
				if k == r.slo && k == math.MinInt64 {
					return
				}
				k--
			}
			if k < r.shi {
				r.shi = k
			}
		} else {
			k := sc
			if strict {
				if k == math.MaxInt64 {
					return
				}
				k++
			}
			if k > r.slo {
				r.slo = k
			}
		}
	case OpUlt, OpUle:
		strict := l.op == OpUlt
		upper := constRight
		if neg {
			upper = !upper
			strict = !strict
		}
		if upper {
			k := c
			if strict {
				if k == 0 {
					return
				}
				k--
			}
			if k < r.uhi {
				r.uhi = k
			}
		} else {
			k := c
			if strict {
				if k == math.MaxUint64 {
					return
				}
				k++
			}
			if k > r.ulo {
				r.ulo = k
			}
		}
	}
	r.sync()
}

// byRange decides a comparison-with-constant literal from interval facts.
func (p *Path) byRange(l *Term) (val, ok bool) {
	neg := false
	if l.op == OpNot {
		neg = true
		l = l.a
	}
	switch l.op {
	case OpEq, OpSlt, OpSle, OpUlt, OpUle:
	default:
		return false, false
	}
	a, b := l.a, l.b
	if a.w == 0 {
		return false, false
	}
	var t *Term
	var c uint64
	constRight := false
	switch {
	case b.op == OpConst && a.op != OpConst:
		t, c, constRight = a, b.val, true
	case a.op == OpConst && b.op != OpConst:
		t, c = b, a.val
	default:
		return false, false
	}
	r := p.rangeOf(t, false)
	if r == nil {
		return false, false
	}
	w := int(t.w)
	sc := sext64(c, w)
	res, known := false, false
	switch l.op {
	case OpEq:
		if c < r.ulo || c > r.uhi || sc < r.slo || sc > r.shi {
			res, known = false, true
		} else if r.ulo == r.uhi && r.ulo == c {
			res, known = true, true
		}
	case OpSlt:
		if constRight { // t < c
			if r.shi < sc {
				res, known = true, true
			} else if r.slo >= sc {
				res, known = false, true
			}
		} else { // c < t
			if r.slo > sc {
				res, known = true, true
			} else if r.shi <= sc {
				res, known = false, true
			}
		}
	case OpSle:
		if constRight { // t <= c
			if r.shi <= sc {
				res, known = true, true
			} else if r.slo > sc {
				res, known = false, true
			}
		} else { // c <= t
			if r.slo >= sc {
				res, known = true, true
			} else if r.shi < sc {
				res, known = false, true
			}
		}
	case OpUlt:
		if constRight {
			if r.uhi < c {
				res, known = true, true
			} else if r.ulo >= c {
				res, known = false, true
			}
		} else {
			if r.ulo > c {
				res, known = true, true
			} else if r.uhi <= c {
				res, known = false, true
			}
		}
	case OpUle:
		if constRight {
			if r.uhi <= c {
				res, known = true, true
			} else if r.ulo > c {
				res, known = false, true
			}
		} else {
			if r.ulo >= c {
				res, known = true, true
			} else if r.uhi < c {
				res, known = false, true
			}
		}
	}
	if !known {
		return false, false
	}
	if neg {
		res = !res
	}
	return res, true
}
