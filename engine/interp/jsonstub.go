package interp

// encoding/json contract stub: payloads are converted to native values and run
// through the real package natively (the package itself is trusted).

import (
	"bytes"
	"encoding/json"
	"fmt"
	"go/token"
	"go/types"
	"reflect"
	"strconv"
	"strings"
)

var strconvParseFloat = strconv.ParseFloat

func parseUintNative(s string, base, bits int) (uint64, error) { return strconv.ParseUint(s, base, bits) }

type orderedObject struct {
	keys []string
	vals []interface{}
}

func (o orderedObject) MarshalJSON() ([]byte, error) {
	var buf bytes.Buffer
	buf.WriteByte('{')
	for i, k := range o.keys {
		if i > 0 {
			buf.WriteByte(',')
		}
		kb, _ := json.Marshal(k)
		buf.Write(kb)
		buf.WriteByte(':')
		var vb bytes.Buffer
		e := json.NewEncoder(&vb)
		e.SetEscapeHTML(false)
		if err := e.Encode(o.vals[i]); err != nil {
			return nil, err
		}
		buf.Write(bytes.TrimRight(vb.Bytes(), "\n"))
	}
	buf.WriteByte('}')
	return buf.Bytes(), nil
}

type unsupportedJSON struct{ msg string }

// jsonNative converts a boxed value of static/dynamic type t into something encoding/json prints the same way.
func jsonNative(fr *frame, v value, t types.Type) (interface{}, error) {
	if it, ok := v.(iface); ok {
		if it.t == nil {
			return nil, nil
		}
		return jsonNative(fr, it.v, it.t)
	}
	if t == nil {
		return nil, fmt.Errorf("json stub: untyped payload %T", v)
	}
	if findMethod(fr, t, "MarshalJSON") != nil {
		return nil, engineError{"json stub: payload type " + t.String() + " has its own MarshalJSON"}
	}
	if mt := findMethod(fr, t, "MarshalText"); mt != nil {
		// encoding.TextMarshaler: the real method runs in the interpreter, its text becomes a JSON string
		res := call(fr.i, fr, token.NoPos, mt, []value{v}).(tuple)
		if e, ok := res[1].(iface); ok && e.t != nil {
			return nil, fmt.Errorf("json: error calling MarshalText for type %s", t.String())
		}
		b := res[0].([]value)
		out := make([]byte, len(b))
		for i, e := range b {
			out[i] = fr.concValue(e, "json text payload").(uint8)
		}
		return string(out), nil
	}
	switch u := t.Underlying().(type) {
	case *types.Basic:
		cv := fr.concValue(v, "json payload")
		switch x := cv.(type) {
		case complex64, complex128:
			return nil, &json.UnsupportedTypeError{Type: reflect.TypeOf(x)}
		}
		return cv, nil
	case *types.Pointer:
		p := v.(*value)
		if p == nil {
			return nil, nil
		}
		return jsonNative(fr, *p, u.Elem())
	case *types.Slice:
		s := v.([]value)
		if s == nil {
			return nil, nil
		}
		if b, ok := u.Elem().Underlying().(*types.Basic); ok && b.Kind() == types.Uint8 {
			out := make([]byte, len(s))
			for i, e := range s {
				out[i] = fr.concValue(e, "json payload").(uint8)
			}
			return out, nil
		}
		out := make([]interface{}, len(s))
		for i, e := range s {
			n, err := jsonNative(fr, e, u.Elem())
			if err != nil {
				return nil, err
			}
			out[i] = n
		}
		return out, nil
	case *types.Array:
		a := v.(array)
		out := make([]interface{}, len(a))
		for i, e := range a {
			n, err := jsonNative(fr, e, u.Elem())
			if err != nil {
				return nil, err
			}
			out[i] = n
		}
		return out, nil
	case *types.Map:
		kb, ok := u.Key().Underlying().(*types.Basic)
		if !ok || kb.Kind() != types.String {
			return nil, engineError{"json stub: map key type " + u.Key().String()}
		}
		out := map[string]interface{}{}
		switch m := v.(type) {
		case map[value]value:
			if m == nil {
				return nil, nil
			}
			for k, e := range m {
				n, err := jsonNative(fr, e, u.Elem())
				if err != nil {
					return nil, err
				}
				out[k.(string)] = n
			}
		default:
			return nil, engineError{fmt.Sprintf("json stub: map representation %T", v)}
		}
		return out, nil
	case *types.Struct:
		st := v.(structure)
		var o orderedObject
		for i := 0; i < u.NumFields(); i++ {
			f := u.Field(i)
			if !f.Exported() {
				continue
			}
			name := f.Name()
			tag := reflect.StructTag(u.Tag(i)).Get("json")
			omitempty := false
			if tag != "" {
				parts := strings.Split(tag, ",")
				if parts[0] == "-" && len(parts) == 1 {
					continue
				}
				if parts[0] != "" {
					name = parts[0]
				}
				for _, p := range parts[1:] {
					if p == "omitempty" {
						omitempty = true
					}
				}
			}
			n, err := jsonNative(fr, st[i], f.Type())
			if err != nil {
				return nil, err
			}
			if omitempty && (n == nil || reflect.ValueOf(n).IsZero()) {
				continue
			}
			o.keys = append(o.keys, name)
			o.vals = append(o.vals, n)
		}
		return o, nil
	case *types.Interface:
		return jsonNative(fr, v, nil)
	case *types.Chan:
		return nil, &json.UnsupportedTypeError{Type: reflect.TypeOf(make(chan int))}
	case *types.Signature:
		return nil, &json.UnsupportedTypeError{Type: reflect.TypeOf(func() {})}
	}
	return nil, engineError{"json stub: payload type " + t.String()}
}

type jsonEncoderModel struct {
	w value
}

func init() {
	I := intrinsics
	I["encoding/json.NewEncoder"] = func(fr *frame, args []value) value {
		cell := new(value)
		*cell = structure{}
		fr.i.p.extra[fmt.Sprintf("jsonenc%p", cell)] = &jsonEncoderModel{w: args[0]}
		return cell
	}
	I["(*encoding/json.Encoder).SetEscapeHTML"] = func(fr *frame, args []value) value { return nil }
	I["(*encoding/json.Encoder).SetIndent"] = func(fr *frame, args []value) value { return nil }
	I["(*encoding/json.Encoder).Encode"] = func(fr *frame, args []value) value {
		m, _ := fr.i.p.extra[fmt.Sprintf("jsonenc%p", args[0].(*value))].(*jsonEncoderModel)
		if m == nil {
			panic(engineError{"json stub: Encode on an encoder not created by NewEncoder"})
		}
		n, err := jsonNative(fr, args[1], nil)
		if err != nil {
			if ee, ok := err.(engineError); ok {
				panic(ee)
			}
			return makeError(fr, err.Error())
		}
		var buf bytes.Buffer
		e := json.NewEncoder(&buf)
		e.SetEscapeHTML(false)
		if err := e.Encode(n); err != nil {
			return makeError(fr, err.Error())
		}
		res := writeTo(fr, m.w, buf.String())
		if t, ok := res.(tuple); ok {
			return t[1]
		}
		return iface{}
	}
	I["encoding/json.Marshal"] = func(fr *frame, args []value) value {
		n, err := jsonNative(fr, args[0], nil)
		if err != nil {
			if ee, ok := err.(engineError); ok {
				panic(ee)
			}
			return tuple{[]value(nil), makeError(fr, err.Error())}
		}
		b, err := json.Marshal(n)
		if err != nil {
			return tuple{[]value(nil), makeError(fr, err.Error())}
		}
		return tuple{bytesToValues(b), iface{}}
	}
	I["strconv.ParseFloat"] = func(fr *frame, args []value) value {
		f, err := parseFloatNative(argStr(fr, args[0]), args[1].(int))
		return tuple{f, wrapNativeError(fr, err)}
	}
	I["strconv.ParseUint"] = func(fr *frame, args []value) value {
		n, err := parseUintNative(argStr(fr, args[0]), args[1].(int), args[2].(int))
		return tuple{n, wrapNativeError(fr, err)}
	}
}

func parseFloatNative(s string, bits int) (float64, error) { return strconvParseFloat(s, bits) }
