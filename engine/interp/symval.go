package interp

// Symbolic boxed values and the lifting of binop/unop/conv to them.

import (
	"fmt"
	"go/token"
	"go/types"
	"math"
)

// sym is a symbolic scalar of Go basic kind k (integers, bool, float32/64).
type sym struct {
	t *Term
	k types.BasicKind
}

// symstr is a string of concrete length with at least one symbolic byte.
// Elements are uint8 or sym{k: Uint8}.
type symstr []value

// symcplx is a complex number with symbolic part(s); re/im are float values (float64/float32 or sym).
type symcplx struct {
	re, im value
	k      types.BasicKind // Complex64 or Complex128
}

func kindInfo(k types.BasicKind) (w int, signed bool) {
	switch k {
	case types.Bool, types.UntypedBool:
		return 0, false
	case types.Int8:
		return 8, true
	case types.Int16:
		return 16, true
	case types.Int32, types.UntypedRune:
		return 32, true
	case types.Int64, types.Int, types.UntypedInt:
		return 64, true
	case types.Uint8:
		return 8, false
	case types.Uint16:
		return 16, false
	case types.Uint32:
		return 32, false
	case types.Uint64, types.Uint, types.Uintptr:
		return 64, false
	case types.Float32:
		return 32, false
	case types.Float64, types.UntypedFloat:
		return 64, false
	}
	panic(fmt.Sprintf("kindInfo %v", k))
}

func isFloatKind(k types.BasicKind) bool {
	return k == types.Float32 || k == types.Float64 || k == types.UntypedFloat
}

func isSym(v value) bool {
	switch v.(type) {
	case sym, symstr, symcplx:
		return true
	}
	return false
}

// termOf returns the term and kind of a scalar value (concrete or symbolic).
func termOf(v value) (*Term, types.BasicKind) {
	switch x := v.(type) {
	case sym:
		return x.t, x.k
	case bool:
		return mkBool(x), types.Bool
	case int:
		return mkConst(64, uint64(x)), types.Int
	case int8:
		return mkConst(8, uint64(x)), types.Int8
	case int16:
		return mkConst(16, uint64(x)), types.Int16
	case int32:
		return mkConst(32, uint64(x)), types.Int32
	case int64:
		return mkConst(64, uint64(x)), types.Int64
	case uint:
		return mkConst(64, uint64(x)), types.Uint
	case uint8:
		return mkConst(8, uint64(x)), types.Uint8
	case uint16:
		return mkConst(16, uint64(x)), types.Uint16
	case uint32:
		return mkConst(32, uint64(x)), types.Uint32
	case uint64:
		return mkConst(64, x), types.Uint64
	case uintptr:
		return mkConst(64, uint64(x)), types.Uintptr
	case float32:
		return mkConst(32, uint64(math.Float32bits(x))), types.Float32
	case float64:
		return mkConst(64, math.Float64bits(x)), types.Float64
	}
	panic(fmt.Sprintf("termOf %T", v))
}

// valueOf boxes a term as a value of kind k, concrete when the term is constant.
func valueOf(t *Term, k types.BasicKind) value {
	if t.op != OpConst {
		return sym{t, k}
	}
	v := t.val
	switch k {
	case types.Bool, types.UntypedBool:
		return v != 0
	case types.Int, types.UntypedInt:
		return int(v)
	case types.Int8:
		return int8(v)
	case types.Int16:
		return int16(v)
	case types.Int32, types.UntypedRune:
		return int32(v)
	case types.Int64:
		return int64(v)
	case types.Uint:
		return uint(v)
	case types.Uint8:
		return uint8(v)
	case types.Uint16:
		return uint16(v)
	case types.Uint32:
		return uint32(v)
	case types.Uint64:
		return v
	case types.Uintptr:
		return uintptr(v)
	case types.Float32:
		return math.Float32frombits(uint32(v))
	case types.Float64, types.UntypedFloat:
		return math.Float64frombits(v)
	}
	panic(fmt.Sprintf("valueOf kind %v", k))
}

func symBinop(op token.Token, x, y value) value {
	tx, kx := termOf(x)
	ty, ky := termOf(y)
	if kx == types.Bool || kx == types.UntypedBool {
		switch op {
		case token.EQL:
			return valueOf(mkEq(tx, ty), types.Bool)
		case token.NEQ:
			return valueOf(mkNot(mkEq(tx, ty)), types.Bool)
		case token.LAND:
			return valueOf(mkAnd(tx, ty), types.Bool)
		case token.LOR:
			return valueOf(mkOr(tx, ty), types.Bool)
		}
		panic("symBinop: bool op " + op.String())
	}
	if isFloatKind(kx) {
		b := func(o Op) value { return valueOf(mkFBin(o, tx, ty), kx) }
		c := func(t *Term) value { return valueOf(t, types.Bool) }
		switch op {
		case token.ADD:
			return b(OpFAdd)
		case token.SUB:
			return b(OpFSub)
		case token.MUL:
			return b(OpFMul)
		case token.QUO:
			return b(OpFDiv)
		case token.EQL:
			return c(mkFCmp(OpFEq, tx, ty))
		case token.NEQ:
			return c(mkNot(mkFCmp(OpFEq, tx, ty)))
		case token.LSS:
			return c(mkFCmp(OpFLt, tx, ty))
		case token.LEQ:
			return c(mkFCmp(OpFLe, tx, ty))
		case token.GTR:
			return c(mkFCmp(OpFLt, ty, tx))
		case token.GEQ:
			return c(mkFCmp(OpFLe, ty, tx))
		}
		panic("symBinop: float op " + op.String())
	}
	w, signed := kindInfo(kx)
	b := func(o Op) value { return valueOf(mkBin(o, tx, ty), kx) }
	c := func(t *Term) value { return valueOf(t, types.Bool) }
	pick := func(s, u Op) Op {
		if signed {
			return s
		}
		return u
	}
	switch op {
	case token.ADD:
		return b(OpAdd)
	case token.SUB:
		return b(OpSub)
	case token.MUL:
		return b(OpMul)
	case token.QUO:
		return b(pick(OpSDiv, OpUDiv))
	case token.REM:
		return b(pick(OpSRem, OpURem))
	case token.AND:
		return b(OpBAnd)
	case token.OR:
		return b(OpBOr)
	case token.XOR:
		return b(OpBXor)
	case token.AND_NOT:
		return valueOf(mkBin(OpBAnd, tx, mkBNot(ty)), kx)
	case token.SHL, token.SHR:
		wy, _ := kindInfo(ky)
		// Go: shift counts >= width give 0 (or sign fill); SMT bvshl/bvlshr/bvashr agree when the
		// count is compared at the operand width, so saturate wide counts first.
		switch {
		case wy < w:
			ty = mkZExt(ty, w)
		case wy > w:
			over := mkCmp(OpUle, mkConst(wy, uint64(w)), ty)
			ty = mkIte(over, mkConst(w, uint64(w)), mkExtract(ty, w-1, 0))
		}
		o := OpShl
		if op == token.SHR {
			o = pick(OpAShr, OpLShr)
		}
		return valueOf(mkBin(o, tx, ty), kx)
	case token.EQL:
		return c(mkEq(tx, ty))
	case token.NEQ:
		return c(mkNot(mkEq(tx, ty)))
	case token.LSS:
		return c(mkCmp(pick(OpSlt, OpUlt), tx, ty))
	case token.LEQ:
		return c(mkCmp(pick(OpSle, OpUle), tx, ty))
	case token.GTR:
		return c(mkCmp(pick(OpSlt, OpUlt), ty, tx))
	case token.GEQ:
		return c(mkCmp(pick(OpSle, OpUle), ty, tx))
	}
	panic("symBinop " + op.String())
}

func symUnop(op token.Token, x sym) value {
	switch op {
	case token.NOT:
		return valueOf(mkNot(x.t), types.Bool)
	case token.SUB:
		if isFloatKind(x.k) {
			return valueOf(mkFNeg(x.t), x.k)
		}
		return valueOf(mkNeg(x.t), x.k)
	case token.XOR:
		return valueOf(mkBNot(x.t), x.k)
	}
	panic("symUnop " + op.String())
}

// symConvNum converts a symbolic numeric value to basic kind dst.
func symConvNum(dst types.BasicKind, x sym) value {
	ws, ssigned := kindInfo(x.k)
	wd, dsigned := kindInfo(dst)
	sf, df := isFloatKind(x.k), isFloatKind(dst)
	switch {
	case sf && df:
		return valueOf(mkFConv(OpFCvt, x.t, wd), dst)
	case sf && !df:
		if dsigned {
			return valueOf(mkFConv(OpFToS, x.t, wd), dst)
		}
		return valueOf(mkFConv(OpFToU, x.t, wd), dst)
	case !sf && df:
		if ssigned {
			return valueOf(mkFConv(OpFFromS, x.t, wd), dst)
		}
		return valueOf(mkFConv(OpFFromU, x.t, wd), dst)
	}
	t := x.t
	switch {
	case wd < ws:
		t = mkExtract(t, wd-1, 0)
	case wd > ws:
		if ssigned {
			t = mkSExt(t, wd)
		} else {
			t = mkZExt(t, wd)
		}
	}
	return valueOf(t, dst)
}

// ---- strings

func isStr(v value) bool {
	switch v.(type) {
	case string, symstr:
		return true
	}
	return false
}

func strLen(v value) int {
	switch s := v.(type) {
	case string:
		return len(s)
	case symstr:
		return len(s)
	}
	panic(fmt.Sprintf("strLen %T", v))
}

func strBytes(v value) []value {
	switch s := v.(type) {
	case string:
		out := make([]value, len(s))
		for i := 0; i < len(s); i++ {
			out[i] = s[i]
		}
		return out
	case symstr:
		return []value(s)
	}
	panic(fmt.Sprintf("strBytes %T", v))
}

// mkStr builds a string value from bytes (copying), normalising to a Go string when concrete.
func mkStr(b []value) value {
	conc := true
	for _, e := range b {
		if _, ok := e.(uint8); !ok {
			conc = false
			break
		}
	}
	if conc {
		bs := make([]byte, len(b))
		for i, e := range b {
			bs[i] = e.(uint8)
		}
		return string(bs)
	}
	out := make(symstr, len(b))
	copy(out, b)
	return out
}

func strEqTerm(x, y value) *Term {
	if strLen(x) != strLen(y) {
		return tFalse
	}
	bx, by := strBytes(x), strBytes(y)
	r := tTrue
	for i := range bx {
		tx, _ := termOf(bx[i])
		ty, _ := termOf(by[i])
		r = mkAnd(r, mkEq(tx, ty))
		if r.isFalse() {
			return r
		}
	}
	return r
}

// strLtTerm: lexicographic x < y (orEq: x <= y).
func strLtTerm(x, y value, orEq bool) *Term {
	bx, by := strBytes(x), strBytes(y)
	n := len(bx)
	if len(by) < n {
		n = len(by)
	}
	// result when common prefix equal
	var tail *Term
	if orEq {
		tail = mkBool(len(bx) <= len(by))
	} else {
		tail = mkBool(len(bx) < len(by))
	}
	r := tail
	for i := n - 1; i >= 0; i-- {
		tx, _ := termOf(bx[i])
		ty, _ := termOf(by[i])
		r = mkIte(mkEq(tx, ty), r, mkCmp(OpUlt, tx, ty))
	}
	return r
}

func symStrBinop(op token.Token, x, y value) value {
	switch op {
	case token.ADD:
		bx, by := strBytes(x), strBytes(y)
		out := make([]value, 0, len(bx)+len(by))
		out = append(append(out, bx...), by...)
		return mkStr(out)
	case token.EQL:
		return valueOf(strEqTerm(x, y), types.Bool)
	case token.NEQ:
		return valueOf(mkNot(strEqTerm(x, y)), types.Bool)
	case token.LSS:
		return valueOf(strLtTerm(x, y, false), types.Bool)
	case token.LEQ:
		return valueOf(strLtTerm(x, y, true), types.Bool)
	case token.GTR:
		return valueOf(strLtTerm(y, x, false), types.Bool)
	case token.GEQ:
		return valueOf(strLtTerm(y, x, true), types.Bool)
	}
	panic("symStrBinop " + op.String())
}

// ---- generalised equality producing a term

// eqTerm returns the term for x == y under Go's equality for type t; ok is false if the
// comparison is not supported symbolically (caller falls back to concrete equals).
func eqTerm(t types.Type, x, y value) *Term {
	switch x := x.(type) {
	case sym:
		return eqScalar(x, y)
	case symstr:
		return strEqTerm(x, y)
	case symcplx:
		return eqCplx(x, y)
	case string:
		if _, ok := y.(symstr); ok {
			return strEqTerm(x, y)
		}
		return mkBool(x == y.(string))
	case structure:
		ys := y.(structure)
		st := t.Underlying().(*types.Struct)
		r := tTrue
		for i := range x {
			f := st.Field(i)
			if f.Name() == "_" {
				continue
			}
			r = mkAnd(r, eqTerm(f.Type(), x[i], ys[i]))
			if r.isFalse() {
				break
			}
		}
		return r
	case array:
		ya := y.(array)
		et := t.Underlying().(*types.Array).Elem()
		r := tTrue
		for i := range x {
			r = mkAnd(r, eqTerm(et, x[i], ya[i]))
			if r.isFalse() {
				break
			}
		}
		return r
	case iface:
		yi := y.(iface)
		if !sameType(x.t, yi.t) {
			return tFalse
		}
		if x.t == nil {
			return tTrue
		}
		return eqTerm(x.t, x.v, yi.v)
	}
	switch y.(type) {
	case sym:
		return eqScalar(y.(sym), x)
	case symcplx:
		return eqCplx(y.(symcplx), x)
	}
	return mkBool(equals(t, x, y))
}

func eqScalar(x sym, y value) *Term {
	tx := x.t
	ty, _ := termOf(y)
	if isFloatKind(x.k) {
		return mkFCmp(OpFEq, tx, ty)
	}
	return mkEq(tx, ty)
}

func cplxParts(v value) (re, im value) {
	switch c := v.(type) {
	case symcplx:
		return c.re, c.im
	case complex128:
		return real(c), imag(c)
	case complex64:
		return real(c), imag(c)
	}
	panic(fmt.Sprintf("cplxParts %T", v))
}

func eqCplx(x symcplx, y value) *Term {
	yr, yi := cplxParts(y)
	a, _ := termOf(x.re)
	b, _ := termOf(yr)
	c, _ := termOf(x.im)
	d, _ := termOf(yi)
	return mkAnd(mkFCmp(OpFEq, a, b), mkFCmp(OpFEq, c, d))
}

// containsSym reports whether a (shallow-ish) value has symbolic parts relevant to equality.
func containsSym(v value) bool {
	switch x := v.(type) {
	case sym, symstr, symcplx:
		return true
	case structure:
		for _, e := range x {
			if containsSym(e) {
				return true
			}
		}
	case array:
		for _, e := range x {
			if containsSym(e) {
				return true
			}
		}
	case iface:
		return containsSym(x.v)
	}
	return false
}
