package interp

// Intrinsics: exact engine-side semantics for sync, atomics, channels helpers,
// pools, small pure library functions, and the vrt harness API.

import (
	"fmt"
	"go/token"
	"go/types"
	"math"
	"sort"
	"strings"

	"golang.org/x/tools/go/ssa"
)

var intrinsics = map[string]externalFn{}

// sourceOnly lists upstream externals that must NOT shadow the real source (we want the code executed).
var sourceOnly = map[string]bool{
	"unicode/utf8.DecodeRuneInString": true,
	"math.IsNaN": true, "math.Abs": true, "math.Inf": true, "math.NaN": true, "math.Copysign": true, "math.Min": true,
	"strings.Count": true, "strings.Replace": true, "strings.EqualFold": true,
	"strconv.Atoi": true, "strconv.Itoa": true, "strconv.FormatFloat": true,
	"fmt.Sprint": true, "bytes.Equal": true, "bytes.IndexByte": true, "strings.IndexByte": true, "strings.Index": true,
	"strings.ToLower": true, "sort.Strings": true, "sort.Ints": true, "sort.Float64s": true,
	"time.Sleep": true, "os.Exit": true, "runtime.Goexit": true,
}

func lookupExternal(fn *ssa.Function) externalFn {
	if fn.Parent() != nil {
		return nil
	}
	name := fn.String()
	if f := intrinsics[name]; f != nil {
		return f
	}
	if o := fn.Origin(); o != nil {
		if f := intrinsics[o.String()]; f != nil {
			return f
		}
	}
	if sourceOnly[name] {
		return nil
	}
	return externals[name]
}

const vrtPath = "go.uber.org/zap/internal/vrt."

func argStr(fr *frame, v value) string {
	switch s := v.(type) {
	case string:
		return s
	case symstr:
		return fr.concValue(s, "string needed concretely by an intrinsic").(string)
	}
	panic(engineError{fmt.Sprintf("expected string, got %T", v)})
}

func (p *Path) freshInput(name string, k types.BasicKind) value {
	if p.inames[name] {
		panic(engineError{"duplicate input name " + name})
	}
	p.inames[name] = true
	w, _ := kindInfo(k)
	smt := fmt.Sprintf("i%d_%s", len(p.inputs), sanitize(name))
	t := mkVar(smt, w)
	p.inputs = append(p.inputs, InputRec{Name: name, Kind: types.Typ[k].Name(), term: t})
	p.noteVars(t)
	return sym{t, k}
}

func (p *Path) freshInternal(prefix string, k types.BasicKind) sym {
	p.fresh++
	w, _ := kindInfo(k)
	t := mkVar(fmt.Sprintf("x%d_%s", p.fresh, prefix), w)
	p.noteVars(t)
	return sym{t, k}
}

func sanitize(s string) string {
	var sb strings.Builder
	for _, r := range s {
		if r >= 'a' && r <= 'z' || r >= 'A' && r <= 'Z' || r >= '0' && r <= '9' {
			sb.WriteRune(r)
		} else {
			sb.WriteByte('_')
		}
	}
	return sb.String()
}

// atomCell returns the cell holding the payload of a sync/atomic typed value (last field).
func atomCell(a value) *value {
	p := a.(*value)
	if p == nil {
		panic(runtimeError("invalid memory address or nil pointer dereference"))
	}
	st := (*p).(structure)
	return &st[len(st)-1]
}

func (s *Sched) atomicOp(fr *frame, cell *value) {
	s.yield("atomic")
	if s.multi() {
		o := s.obj(cell)
		s.cur.vc.join(&o.vc)
		o.vc = s.cur.vc
		s.cur.vc[s.cur.id]++
	}
}

func mustTerm(v value) *Term {
	t, _ := termOf(v)
	return t
}

type poolObj struct {
	pool *value
	obj  *value
}

// poolObjKey identifies a pooled object for the happens-before edge Put(x) -> Get()=x.
func poolObjKey(pool *value, x value) interface{} {
	if it, ok := x.(iface); ok {
		x = it.v
	}
	if p, ok := x.(*value); ok && p != nil {
		return poolObj{pool, p}
	}
	return pool
}

func poolNew(fr *frame, pool *value) value {
	p := (*pool).(structure)
	newf := p[len(p)-1]
	if f, ok := newf.(*ssa.Function); ok && f == nil {
		return iface{}
	}
	return call(fr.i, fr, token.NoPos, newf, nil)
}

type putHook struct {
	k, count    int
	f           value
	busy, fired bool
}

type poolModel struct {
	bags   map[*value][]value
	nondet bool
	budget int // nondeterministic Gets left (-1: unlimited)
	width  int // when > 0: at most this many alternatives per Get (newest ones, the oldest, a new object)
	gets   int
	reuses int
}

func init() {
	I := intrinsics

	// ---- vrt API
	mk := func(name string, k types.BasicKind) {
		I[vrtPath+name] = func(fr *frame, args []value) value {
			return fr.i.p.freshInput(argStr(fr, args[0]), k)
		}
	}
	mk("Int64", types.Int64)
	mk("Int32", types.Int32)
	mk("Int16", types.Int16)
	mk("Int8", types.Int8)
	mk("Int", types.Int)
	mk("Uint64", types.Uint64)
	mk("Uint32", types.Uint32)
	mk("Uint16", types.Uint16)
	mk("Uint8", types.Uint8)
	mk("Byte", types.Uint8)
	mk("Uint", types.Uint)
	mk("Uintptr", types.Uintptr)
	mk("Float64", types.Float64)
	mk("Float32", types.Float32)
	I[vrtPath+"Bool"] = func(fr *frame, args []value) value {
		b := fr.i.p.freshInput(argStr(fr, args[0]), types.Uint8).(sym)
		return valueOf(mkNot(mkEq(b.t, mkConst(8, 0))), types.Bool)
	}
	I[vrtPath+"Bytes"] = func(fr *frame, args []value) value {
		name := argStr(fr, args[0])
		n := int(fr.conc(args[1]))
		out := make([]value, n)
		for i := range out {
			out[i] = fr.i.p.freshInput(fmt.Sprintf("%s[%d]", name, i), types.Uint8)
		}
		return out
	}
	I[vrtPath+"String"] = func(fr *frame, args []value) value {
		name := argStr(fr, args[0])
		n := int(fr.conc(args[1]))
		out := make([]value, n)
		for i := range out {
			out[i] = fr.i.p.freshInput(fmt.Sprintf("%s[%d]", name, i), types.Uint8)
		}
		return mkStr(out)
	}
	I[vrtPath+"Choice"] = func(fr *frame, args []value) value {
		name := argStr(fr, args[0])
		p := fr.i.p
		if p.inames[name] {
			panic(engineError{"duplicate input name " + name})
		}
		p.inames[name] = true
		return p.choose(int(fr.conc(args[1])), name)
	}
	I[vrtPath+"IntRange"] = func(fr *frame, args []value) value {
		name := argStr(fr, args[0])
		lo, hi := int(fr.conc(args[1])), int(fr.conc(args[2]))
		p := fr.i.p
		if p.inames[name] {
			panic(engineError{"duplicate input name " + name})
		}
		p.inames[name] = true
		return lo + p.choose(hi-lo+1, name)
	}
	I[vrtPath+"Symbolic"] = func(fr *frame, args []value) value { return true }
	I[vrtPath+"Tier"] = func(fr *frame, args []value) value { return fr.i.p.opts.Tier }
	I[vrtPath+"Pick"] = func(fr *frame, args []value) value {
		if fr.i.p.opts.Tier > 0 {
			return args[1]
		}
		return args[0]
	}
	I[vrtPath+"Assume"] = func(fr *frame, args []value) value {
		switch c := args[0].(type) {
		case bool:
			if !c {
				panic(pathEnd{"assume"})
			}
		case sym:
			fr.i.p.assume(c.t)
		}
		return nil
	}
	I[vrtPath+"AssumeFailed"] = func(fr *frame, args []value) value { return false }
	I[vrtPath+"Assert"] = func(fr *frame, args []value) value {
		fr.i.p.assert(argStr(fr, args[0]), args[1])
		return nil
	}
	I[vrtPath+"Fail"] = func(fr *frame, args []value) value {
		fr.i.p.addViolation("fail", argStr(fr, args[0]), "", fr.i.p.model)
		return nil
	}
	I[vrtPath+"Cover"] = func(fr *frame, args []value) value {
		fr.i.p.covers = append(fr.i.p.covers, argStr(fr, args[0]))
		return nil
	}
	I[vrtPath+"Tag"] = func(fr *frame, args []value) value {
		fr.i.p.tags = append(fr.i.p.tags, argStr(fr, args[0]))
		return nil
	}
	I[vrtPath+"Bound"] = func(fr *frame, args []value) value {
		fr.i.p.bounds = append(fr.i.p.bounds, argStr(fr, args[0]))
		return nil
	}
	I[vrtPath+"Observe"] = func(fr *frame, args []value) value {
		fr.i.p.obs = append(fr.i.p.obs, Observation{Label: argStr(fr, args[0]), val: snapshotValue(args[1])})
		return nil
	}
	I[vrtPath+"Join"] = func(fr *frame, args []value) value {
		fr.i.p.sched.joinAll()
		return nil
	}
	I[vrtPath+"LiveGoroutines"] = func(fr *frame, args []value) value {
		n := 0
		for _, g := range fr.i.p.sched.gs[1:] {
			if !g.done {
				n++
			}
		}
		return n
	}
	I[vrtPath+"Yield"] = func(fr *frame, args []value) value {
		fr.i.p.sched.yield("vrt.Yield")
		return nil
	}
	I[vrtPath+"PoolNondet"] = func(fr *frame, args []value) value {
		fr.i.p.pool.nondet = args[0].(bool)
		fr.i.p.pool.budget = -1
		fr.i.p.pool.width = 0
		return nil
	}
	I[vrtPath+"PoolNondetFirst"] = func(fr *frame, args []value) value {
		fr.i.p.pool.nondet = true
		fr.i.p.pool.budget = int(fr.conc(args[0]))
		fr.i.p.pool.width = int(fr.conc(args[1]))
		return nil
	}
	I[vrtPath+"SolverHint"] = func(fr *frame, args []value) value {
		fr.i.p.solverHint = argStr(fr, args[0])
		return nil
	}
	I[vrtPath+"Budget"] = func(fr *frame, args []value) value {
		if n := int64(fr.conc(args[0])); n > fr.i.p.stepBudget {
			fr.i.p.stepBudget = n
		}
		return nil
	}
	I[vrtPath+"Event"] = func(fr *frame, args []value) value {
		fr.i.p.events = append(fr.i.p.events, argStr(fr, args[0]))
		return nil
	}
	I[vrtPath+"Events"] = func(fr *frame, args []value) value {
		out := make([]value, len(fr.i.p.events))
		for i, e := range fr.i.p.events {
			out[i] = e
		}
		return out
	}
	I[vrtPath+"ResetEvents"] = func(fr *frame, args []value) value { fr.i.p.events = nil; return nil }
	I[vrtPath+"EventsString"] = func(fr *frame, args []value) value { return strings.Join(fr.i.p.events, ";") }
	I[vrtPath+"SortedTags"] = func(fr *frame, args []value) value {
		t := append([]string{}, fr.i.p.tags...)
		sort.Strings(t)
		out := make([]value, len(t))
		for i, e := range t {
			out[i] = e
		}
		return out
	}
	I[vrtPath+"TokInt"] = func(fr *frame, args []value) value {
		if tk := fr.i.p.tokenOf(args[0]); tk != nil && tk.Kind == "int" {
			return tuple{valueOf(tk.Val, types.Int64), true}
		}
		return tuple{int64(0), false}
	}
	I[vrtPath+"TokUint"] = func(fr *frame, args []value) value {
		if tk := fr.i.p.tokenOf(args[0]); tk != nil && tk.Kind == "uint" {
			return tuple{valueOf(tk.Val, types.Uint64), true}
		}
		return tuple{uint64(0), false}
	}
	I[vrtPath+"TokFloat"] = func(fr *frame, args []value) value {
		if tk := fr.i.p.tokenOf(args[0]); tk != nil && tk.Kind == "float" {
			v := tk.Val
			if tk.Bits == 32 {
				v = mkFConv(OpFCvt, v, 64)
			}
			return tuple{valueOf(v, types.Float64), tk.Bits, true}
		}
		return tuple{float64(0), 0, false}
	}
	I[vrtPath+"TokID"] = func(fr *frame, args []value) value {
		if tk := fr.i.p.tokenOf(args[0]); tk != nil {
			return tk.ID
		}
		return 0
	}

	// ---- sync.Mutex / RWMutex / Once / WaitGroup
	I["(*sync.Mutex).Lock"] = func(fr *frame, args []value) value {
		s := fr.i.p.sched
		m := s.obj(args[0].(*value))
		s.yield("Mutex.Lock")
		s.block("Mutex.Lock", func() bool { return m.held })
		m.held = true
		m.holder = s.cur.id
		s.cur.vc.join(&m.vc)
		return nil
	}
	I["(*sync.Mutex).TryLock"] = func(fr *frame, args []value) value {
		s := fr.i.p.sched
		m := s.obj(args[0].(*value))
		s.yield("Mutex.TryLock")
		if m.held {
			return false
		}
		m.held = true
		m.holder = s.cur.id
		s.cur.vc.join(&m.vc)
		return true
	}
	I["(*sync.Mutex).Unlock"] = func(fr *frame, args []value) value {
		s := fr.i.p.sched
		m := s.obj(args[0].(*value))
		if !m.held {
			panic(targetPanic{iface{fr.i.runtimeErrorString, "sync: unlock of unlocked mutex"}})
		}
		m.held = false
		m.vc = s.cur.vc
		s.cur.vc[s.cur.id]++
		return nil
	}
	I["(*sync.RWMutex).Lock"] = func(fr *frame, args []value) value {
		s := fr.i.p.sched
		m := s.obj(args[0].(*value))
		s.yield("RWMutex.Lock")
		// a blocked Lock call excludes new readers (sync.RWMutex: "a blocked Lock call excludes new readers
		// from acquiring the lock"), so a recursive RLock behind a pending writer deadlocks as it does natively
		m.waitingWriters++
		s.block("RWMutex.Lock", func() bool { return m.held || m.readers > 0 })
		m.waitingWriters--
		m.held = true
		s.cur.vc.join(&m.vc)
		s.cur.vc.join(&m.rvc)
		return nil
	}
	I["(*sync.RWMutex).Unlock"] = func(fr *frame, args []value) value {
		s := fr.i.p.sched
		m := s.obj(args[0].(*value))
		if !m.held {
			panic(targetPanic{iface{fr.i.runtimeErrorString, "sync: Unlock of unlocked RWMutex"}})
		}
		m.held = false
		m.vc = s.cur.vc
		s.cur.vc[s.cur.id]++
		return nil
	}
	I["(*sync.RWMutex).RLock"] = func(fr *frame, args []value) value {
		s := fr.i.p.sched
		m := s.obj(args[0].(*value))
		s.yield("RWMutex.RLock")
		s.block("RWMutex.RLock", func() bool { return m.held || m.waitingWriters > 0 })
		m.readers++
		s.cur.vc.join(&m.vc)
		return nil
	}
	I["(*sync.RWMutex).RUnlock"] = func(fr *frame, args []value) value {
		s := fr.i.p.sched
		m := s.obj(args[0].(*value))
		if m.readers <= 0 {
			panic(targetPanic{iface{fr.i.runtimeErrorString, "sync: RUnlock of unlocked RWMutex"}})
		}
		m.readers--
		m.rvc.join(&s.cur.vc)
		s.cur.vc[s.cur.id]++
		return nil
	}
	I["(*sync.Once).Do"] = func(fr *frame, args []value) value {
		s := fr.i.p.sched
		o := s.obj(args[0].(*value))
		s.yield("Once.Do")
		s.block("Once.Do", func() bool { return o.state == 1 })
		if o.state == 2 {
			s.cur.vc.join(&o.vc)
			return nil
		}
		o.state = 1
		defer func() {
			// Once is marked done even if f panics
			o.state = 2
			o.vc = s.cur.vc
			s.cur.vc[s.cur.id]++
		}()
		call(fr.i, fr, token.NoPos, args[1], nil)
		return nil
	}
	I["(*sync.WaitGroup).Add"] = func(fr *frame, args []value) value {
		s := fr.i.p.sched
		o := s.obj(args[0].(*value))
		o.count += fr.conc(args[1])
		if o.count < 0 {
			panic(targetPanic{iface{fr.i.runtimeErrorString, "sync: negative WaitGroup counter"}})
		}
		o.vc.join(&s.cur.vc)
		s.cur.vc[s.cur.id]++
		return nil
	}
	I["(*sync.WaitGroup).Done"] = func(fr *frame, args []value) value {
		s := fr.i.p.sched
		o := s.obj(args[0].(*value))
		o.count--
		if o.count < 0 {
			panic(targetPanic{iface{fr.i.runtimeErrorString, "sync: negative WaitGroup counter"}})
		}
		o.vc.join(&s.cur.vc)
		s.cur.vc[s.cur.id]++
		return nil
	}
	I["(*sync.WaitGroup).Wait"] = func(fr *frame, args []value) value {
		s := fr.i.p.sched
		o := s.obj(args[0].(*value))
		s.yield("WaitGroup.Wait")
		s.block("WaitGroup.Wait", func() bool { return o.count > 0 })
		s.cur.vc.join(&o.vc)
		return nil
	}

	// ---- sync.Pool
	I["(*sync.Pool).Get"] = func(fr *frame, args []value) value {
		p := fr.i.p
		pm := p.pool
		key := args[0].(*value)
		p.sched.yield("Pool.Get")
		bag := pm.bags[key]
		pm.gets++
		// happens-before: as in the real runtime, Put(x) is ordered before the Get that returns x — an edge
		// per object, not per pool (taken below once the object is chosen)
		acquire := func(x value) value {
			if s := p.sched; s.multi() {
				s.cur.vc.join(&s.obj(poolObjKey(key, x)).vc)
			}
			return x
		}
		if len(bag) == 0 {
			return poolNew(fr, key)
		}
		k := len(bag) - 1 // LIFO reuse by default
		if pm.nondet && pm.budget != 0 {
			if pm.budget > 0 {
				pm.budget--
			}
			if pm.width > 0 && len(bag)+1 > pm.width {
				// a bounded menu: the newest objects, the oldest one, or a new one
				c := p.choose(pm.width, "")
				switch {
				case c == pm.width-1:
					return poolNew(fr, key)
				case c == pm.width-2:
					k = 0 // the oldest
				default:
					k = len(bag) - 1 - c // the c-th newest
				}
			} else {
				c := p.choose(len(bag)+1, "")
				if c == len(bag) {
					return poolNew(fr, key)
				}
				k = c
			}
		}
		x := bag[k]
		pm.bags[key] = append(append([]value{}, bag[:k]...), bag[k+1:]...)
		pm.reuses++
		return acquire(x)
	}
	I["(*sync.Pool).Put"] = func(fr *frame, args []value) value {
		p := fr.i.p
		key := args[0].(*value)
		if x, ok := args[1].(iface); ok && x.t == nil {
			return nil
		}
		p.pool.bags[key] = append(p.pool.bags[key], args[1])
		if s := p.sched; s.multi() {
			o := s.obj(poolObjKey(key, args[1]))
			o.vc.join(&s.cur.vc)
			s.cur.vc[s.cur.id]++
		}
		p.sched.yield("Pool.Put") // ownership ends here: another goroutine may take the object at once
		// adversarial environment: right after the k-th Put another "goroutine" runs a whole operation
		// (its own Gets take the object that was just put back). Anything the putter still does with the
		// object afterwards is then exposed.
		if h, _ := p.extra["putHook"].(*putHook); h != nil && !h.busy && !h.fired {
			if h.count == h.k {
				h.busy, h.fired = true, true
				p.extra["interfered"] = true
				saved := p.pool.nondet
				p.pool.nondet = false
				call(fr.i, fr, token.NoPos, h.f, nil)
				p.pool.nondet = saved
				h.busy = false
			}
			h.count++
		}
		return nil
	}
	I[vrtPath+"PoolInterfere"] = func(fr *frame, args []value) value {
		fr.i.p.extra["putHook"] = &putHook{k: int(fr.conc(args[0])), f: args[1]}
		return nil
	}
	I[vrtPath+"PoolPuts"] = func(fr *frame, args []value) value {
		if h, _ := fr.i.p.extra["putHook"].(*putHook); h != nil {
			return h.count
		}
		return 0
	}

	// ---- sync/atomic typed values
	for _, ty := range []string{"Int32", "Int64", "Uint32", "Uint64", "Uintptr", "Bool"} {
		T := "(*sync/atomic." + ty + ")."
		isBool := ty == "Bool"
		I[T+"Load"] = func(fr *frame, args []value) value {
			c := atomCell(args[0])
			fr.i.p.sched.atomicOp(fr, c)
			if isBool {
				return binop(token.NEQ, nil, *c, uint32(0))
			}
			return *c
		}
		I[T+"Store"] = func(fr *frame, args []value) value {
			c := atomCell(args[0])
			fr.i.p.sched.atomicOp(fr, c)
			if isBool {
				if sb, ok := args[1].(sym); ok {
					*c = valueOf(mkIte(sb.t, mkConst(32, 1), mkConst(32, 0)), types.Uint32)
				} else if args[1].(bool) {
					*c = uint32(1)
				} else {
					*c = uint32(0)
				}
				return nil
			}
			*c = args[1]
			return nil
		}
		I[T+"Swap"] = func(fr *frame, args []value) value {
			c := atomCell(args[0])
			fr.i.p.sched.atomicOp(fr, c)
			old := *c
			*c = args[1]
			return old
		}
		I[T+"Add"] = func(fr *frame, args []value) value {
			c := atomCell(args[0])
			fr.i.p.sched.atomicOp(fr, c)
			*c = binop(token.ADD, nil, *c, args[1])
			return *c
		}
		I[T+"CompareAndSwap"] = func(fr *frame, args []value) value {
			c := atomCell(args[0])
			fr.i.p.sched.atomicOp(fr, c)
			if fr.cond(binop(token.EQL, nil, *c, args[1])) {
				*c = args[2]
				return true
			}
			return false
		}
	}
	b32 := func(v value) value {
		if sb, ok := v.(sym); ok {
			return valueOf(mkIte(sb.t, mkConst(32, 1), mkConst(32, 0)), types.Uint32)
		}
		if v.(bool) {
			return uint32(1)
		}
		return uint32(0)
	}
	I["(*sync/atomic.Bool).Swap"] = func(fr *frame, args []value) value {
		c := atomCell(args[0])
		fr.i.p.sched.atomicOp(fr, c)
		old := binop(token.NEQ, nil, *c, uint32(0))
		*c = b32(args[1])
		return old
	}
	I["(*sync/atomic.Bool).CompareAndSwap"] = func(fr *frame, args []value) value {
		c := atomCell(args[0])
		fr.i.p.sched.atomicOp(fr, c)
		if fr.cond(binop(token.EQL, nil, *c, b32(args[1]))) {
			*c = b32(args[2])
			return true
		}
		return false
	}
	delete(I, "(*sync/atomic.Bool).Add")
	// atomic.Value and atomic.Pointer[T]
	I["(*sync/atomic.Value).Load"] = func(fr *frame, args []value) value {
		c := atomCell(args[0])
		fr.i.p.sched.atomicOp(fr, c)
		return *c
	}
	I["(*sync/atomic.Value).Store"] = func(fr *frame, args []value) value {
		c := atomCell(args[0])
		fr.i.p.sched.atomicOp(fr, c)
		*c = args[1]
		return nil
	}
	I["(*sync/atomic.Pointer[T]).Load"] = func(fr *frame, args []value) value {
		c := atomCell(args[0])
		fr.i.p.sched.atomicOp(fr, c)
		if pv, ok := (*c).(*value); ok {
			return pv
		}
		return (*value)(nil)
	}
	I["(*sync/atomic.Pointer[T]).Store"] = func(fr *frame, args []value) value {
		c := atomCell(args[0])
		fr.i.p.sched.atomicOp(fr, c)
		*c = args[1]
		return nil
	}
	I["(*sync/atomic.Pointer[T]).Swap"] = func(fr *frame, args []value) value {
		c := atomCell(args[0])
		fr.i.p.sched.atomicOp(fr, c)
		old := *c
		*c = args[1]
		if pv, ok := old.(*value); ok {
			return pv
		}
		return (*value)(nil)
	}
	// legacy function forms operate on *value cells directly
	for _, ty := range []string{"Int32", "Int64", "Uint32", "Uint64", "Uintptr"} {
		I["sync/atomic.Load"+ty] = func(fr *frame, args []value) value {
			c := args[0].(*value)
			fr.i.p.sched.atomicOp(fr, c)
			return *c
		}
		I["sync/atomic.Store"+ty] = func(fr *frame, args []value) value {
			c := args[0].(*value)
			fr.i.p.sched.atomicOp(fr, c)
			*c = args[1]
			return nil
		}
		I["sync/atomic.Add"+ty] = func(fr *frame, args []value) value {
			c := args[0].(*value)
			fr.i.p.sched.atomicOp(fr, c)
			*c = binop(token.ADD, nil, *c, args[1])
			return *c
		}
		I["sync/atomic.CompareAndSwap"+ty] = func(fr *frame, args []value) value {
			c := args[0].(*value)
			fr.i.p.sched.atomicOp(fr, c)
			if fr.cond(binop(token.EQL, nil, *c, args[1])) {
				*c = args[2]
				return true
			}
			return false
		}
	}

	// ---- math bit casts: identity on the bit pattern
	I["math.Float64bits"] = func(fr *frame, args []value) value {
		if s, ok := args[0].(sym); ok {
			return sym{s.t, types.Uint64}
		}
		return math.Float64bits(args[0].(float64))
	}
	I["math.Float64frombits"] = func(fr *frame, args []value) value {
		if s, ok := args[0].(sym); ok {
			return sym{s.t, types.Float64}
		}
		return math.Float64frombits(args[0].(uint64))
	}
	I["math.Float32bits"] = func(fr *frame, args []value) value {
		if s, ok := args[0].(sym); ok {
			return sym{s.t, types.Uint32}
		}
		return math.Float32bits(args[0].(float32))
	}
	I["math.Float32frombits"] = func(fr *frame, args []value) value {
		if s, ok := args[0].(sym); ok {
			return sym{s.t, types.Float32}
		}
		return math.Float32frombits(args[0].(uint32))
	}

	for name, mode := range map[string]uint64{"Trunc": 0, "Floor": 1, "Ceil": 2} {
		mode := mode
		I["math."+name] = func(fr *frame, args []value) value {
			if s, ok := args[0].(sym); ok {
				return sym{mkFRound(s.t, mode), types.Float64}
			}
			return math.Float64frombits(evalFRound(mode, math.Float64bits(args[0].(float64)), 64))
		}
	}

	// ---- runtime / os / time
	I["runtime.Goexit"] = func(fr *frame, args []value) value { panic(goexitPanic{}) }
	I["runtime.Gosched"] = func(fr *frame, args []value) value { fr.i.p.sched.yield("Gosched"); return nil }
	I["runtime.GC"] = func(fr *frame, args []value) value {
		// a GC may empty every pool
		fr.i.p.pool.bags = map[*value][]value{}
		return nil
	}
	I["runtime.KeepAlive"] = func(fr *frame, args []value) value { return nil }
	// the page size is a platform constant (4 KiB on the platforms the native replay runs on)
	I["os.Getpagesize"] = func(fr *frame, args []value) value { return 4096 }
	I["syscall.Getpagesize"] = func(fr *frame, args []value) value { return 4096 }
	I["os.Exit"] = func(fr *frame, args []value) value {
		fr.i.p.events = append(fr.i.p.events, fmt.Sprintf("os.Exit(%d)", fr.conc(args[0])))
		panic(exitPanic(fr.conc(args[0])))
	}
	I["time.Sleep"] = func(fr *frame, args []value) value { fr.i.p.sched.yield("Sleep"); return nil }
	I["(*time.Ticker).Stop"] = func(fr *frame, args []value) value { return nil }
	I["(*time.Timer).Stop"] = func(fr *frame, args []value) value { return false }
	I["time.now"] = func(fr *frame, args []value) value { return tuple{int64(1700000000), int32(0), int64(1000000)} }
	I["time.runtimeNano"] = func(fr *frame, args []value) value { return int64(1000000) }
	I["time.Now"] = func(fr *frame, args []value) value {
		// wall clock reads are an environment input: a fixed instant unless the harness injects a Clock
		return structure{uint64(0), int64(63835596800), (*value)(nil)} // 2024-01-01 00:00:00 UTC, no monotonic
	}
	I["(*time.Location).get"] = nil
	delete(I, "(*time.Location).get")
	I["time.initLocal"] = func(fr *frame, args []value) value { return nil }

	// ---- unsafe-based helpers re-implemented on boxed values
	I["strings.Join"] = func(fr *frame, args []value) value {
		elems := args[0].([]value)
		var out []value
		for i, e := range elems {
			if i > 0 {
				out = append(out, strBytes(args[1])...)
			}
			out = append(out, strBytes(e)...)
		}
		return mkStr(out)
	}
	I["strings.ToLower"] = func(fr *frame, args []value) value { return mapASCII(fr, args[0], true) }
	I["bytes.ToLower"] = func(fr *frame, args []value) value {
		r := mapASCII(fr, mkStr(args[0].([]value)), true)
		return append([]value{}, strBytes(r)...)
	}
	I["strings.ToUpper"] = func(fr *frame, args []value) value { return mapASCII(fr, args[0], false) }
	I["bytes.Equal"] = func(fr *frame, args []value) value {
		return valueOf(strEqTerm(mkStr(args[0].([]value)), mkStr(args[1].([]value))), types.Bool)
	}
	I["bytes.IndexByte"] = func(fr *frame, args []value) value {
		return indexByte(fr, args[0].([]value), args[1])
	}
	I["strings.IndexByte"] = func(fr *frame, args []value) value {
		return indexByte(fr, strBytes(args[0]), args[1])
	}
	I["internal/bytealg.IndexByte"] = I["bytes.IndexByte"]
	I["internal/bytealg.IndexByteString"] = I["strings.IndexByte"]
	countByte := func(fr *frame, b []value, c value) value {
		n := 0
		for _, e := range b {
			if fr.cond(valueOf(mkEq(mustTerm(e), mustTerm(c)), types.Bool)) {
				n++
			}
		}
		return n
	}
	I["internal/bytealg.CountString"] = func(fr *frame, args []value) value { return countByte(fr, strBytes(args[0]), args[1]) }
	I["internal/bytealg.Count"] = func(fr *frame, args []value) value { return countByte(fr, args[0].([]value), args[1]) }
	I["strings.LastIndexByte"] = func(fr *frame, args []value) value {
		b := strBytes(args[0])
		for i := len(b) - 1; i >= 0; i-- {
			if fr.cond(binop(token.EQL, nil, b[i], args[1])) {
				return i
			}
		}
		return -1
	}
	I["strings.Index"] = func(fr *frame, args []value) value { return strIndex(fr, args[0], args[1]) }
	I["strings.Contains"] = func(fr *frame, args []value) value { return strIndex(fr, args[0], args[1]).(int) >= 0 }
	I["strings.HasPrefix"] = func(fr *frame, args []value) value {
		s, pre := strBytes(args[0]), strBytes(args[1])
		if len(pre) > len(s) {
			return false
		}
		return valueOf(strEqTerm(mkStr(s[:len(pre)]), mkStr(pre)), types.Bool)
	}
	I["strings.HasSuffix"] = func(fr *frame, args []value) value {
		s, suf := strBytes(args[0]), strBytes(args[1])
		if len(suf) > len(s) {
			return false
		}
		return valueOf(strEqTerm(mkStr(s[len(s)-len(suf):]), mkStr(suf)), types.Bool)
	}
	I["bytes.TrimSpace"] = func(fr *frame, args []value) value {
		b := args[0].([]value)
		lo, hi := 0, len(b)
		for lo < hi && fr.cond(isASCIISpace(fr, b[lo])) {
			lo++
		}
		for hi > lo && fr.cond(isASCIISpace(fr, b[hi-1])) {
			hi--
		}
		if lo == hi {
			return []value(nil)
		}
		return b[lo:hi]
	}
	I["strings.TrimSpace"] = func(fr *frame, args []value) value {
		b := strBytes(args[0])
		lo, hi := 0, len(b)
		for lo < hi && fr.cond(isASCIISpace(fr, b[lo])) {
			lo++
		}
		for hi > lo && fr.cond(isASCIISpace(fr, b[hi-1])) {
			hi--
		}
		return mkStr(b[lo:hi])
	}
	I["bytes.TrimRight"] = func(fr *frame, args []value) value {
		b := args[0].([]value)
		cut := argStr(fr, args[1])
		hi := len(b)
		for hi > 0 {
			in := value(false)
			for i := 0; i < len(cut); i++ {
				in = binop(token.LOR, nil, in, binop(token.EQL, nil, b[hi-1], cut[i]))
			}
			if !fr.cond(in) {
				break
			}
			hi--
		}
		return b[:hi]
	}
	I["sort.Strings"] = func(fr *frame, args []value) value {
		x := args[0].([]value)
		sort.SliceStable(x, func(i, j int) bool { return argStr(fr, x[i]) < argStr(fr, x[j]) })
		return nil
	}
	I["errors.Is"] = nil
	delete(I, "errors.Is")
}

func isASCIISpace(fr *frame, b value) value {
	r := value(false)
	for _, c := range []byte{' ', '\t', '\n', '\v', '\f', '\r'} {
		r = binop(token.LOR, nil, r, binop(token.EQL, nil, b, c))
	}
	// bytes.TrimSpace also trims U+0085 and U+00A0 when they appear as (multi-byte) runes; bytes >= 0x80
	// are outside the stated ASCII domain of this intrinsic.
	return r
}

// mapASCII lower/upper-cases ASCII letters; non-ASCII bytes are outside the contract (assumed away).
func mapASCII(fr *frame, s value, lower bool) value {
	b := strBytes(s)
	out := make([]value, len(b))
	for i, e := range b {
		switch c := e.(type) {
		case uint8:
			if c >= 0x80 {
				panic(pathEnd{"assume"}) // non-ASCII case folding is outside the claim
			}
			if lower && c >= 'A' && c <= 'Z' {
				c += 32
			} else if !lower && c >= 'a' && c <= 'z' {
				c -= 32
			}
			out[i] = c
		case sym:
			fr.i.p.assume(mkCmp(OpUlt, c.t, mkConst(8, 0x80)))
			lo, hi := uint64('A'), uint64('Z')
			delta := uint64(32)
			if !lower {
				lo, hi = 'a', 'z'
				delta = ^uint64(31) // -32 mod 256
			}
			isL := mkAnd(mkCmp(OpUle, mkConst(8, lo), c.t), mkCmp(OpUle, c.t, mkConst(8, hi)))
			out[i] = valueOf(mkIte(isL, mkBin(OpAdd, c.t, mkConst(8, delta)), c.t), types.Uint8)
		}
	}
	return mkStr(out)
}

func indexByte(fr *frame, b []value, c value) value {
	for i, e := range b {
		if fr.cond(binop(token.EQL, nil, e, c)) {
			return i
		}
	}
	return -1
}

func strIndex(fr *frame, s, sub value) value {
	bs, bsub := strBytes(s), strBytes(sub)
	for i := 0; i+len(bsub) <= len(bs); i++ {
		if fr.cond(valueOf(strEqTerm(mkStr(bs[i:i+len(bsub)]), mkStr(bsub)), types.Bool)) {
			return i
		}
	}
	return -1
}

// snapshotValue deep-copies mutable containers so that later mutation does not change an observation.
func snapshotValue(v value) value {
	switch x := v.(type) {
	case []value:
		out := make([]value, len(x))
		for i, e := range x {
			out[i] = snapshotValue(e)
		}
		return out
	case iface:
		return iface{x.t, snapshotValue(x.v)}
	case structure:
		out := make(structure, len(x))
		for i, e := range x {
			out[i] = snapshotValue(e)
		}
		return out
	case array:
		out := make(array, len(x))
		for i, e := range x {
			out[i] = snapshotValue(e)
		}
		return out
	}
	return v
}
