package interp

// Path exploration: replay-based forking over a decision trail.

import (
	"fmt"
	"os"
	"strconv"
	"sort"
	"strings"
	"sync"
	"sync/atomic"
	"time"

	"golang.org/x/tools/go/ssa"
)

type entryKind uint8

const (
	eBranch entryKind = iota // val: 0/1
	eChoice                  // val: chosen index
	eConc                    // val: concrete value of a term; excl: values excluded before
)

type trailEntry struct {
	kind   entryKind
	val    uint64
	lit    int32    // id of the deciding term (determinism check on replay)
	excl   []uint64 // eConc only
	expand bool     // eConc only: siblings not yet generated
}

// Engine control-flow panics.
type pathEnd struct{ reason string }
type engineError struct{ msg string }

func (e engineError) Error() string { return "engine error: " + e.msg }

type InputRec struct {
	Name string
	Kind string // go kind name, or "choice"
	term *Term  // nil for choices
	val  uint64 // choices: chosen value
}

type Observation struct {
	Label string
	val   value
}

type Violation struct {
	Harness string
	Label   string
	Tags    []string
	Kind    string // "assert", "panic", "race", "deadlock", "fail"
	// Schedule is set when the path ran more than one goroutine: the counterexample includes the
	// interleaving chosen by the executor, which a native replay cannot force.
	Schedule bool
	Detail  string
	Inputs  map[string]uint64
	Kinds   map[string]string
	Order   []string
	Trail   string
}

func (v *Violation) Key() string {
	t := append([]string{}, v.Tags...)
	sort.Strings(t)
	return v.Harness + "|" + v.Label + "|" + strings.Join(t, ",")
}

type PathSample struct {
	Harness string
	Inputs  map[string]uint64
	Kinds   map[string]string
	Order   []string
	Obs     []string // rendered observations under the model
	Tags    []string
	Trail   string
}

// HarnessRun aggregates everything about the exploration of one harness function.
type HarnessRun struct {
	Name string
	Fn   *ssa.Function

	mu            sync.Mutex
	Paths         int64
	Decisions     int64
	Infeasible    int64
	Assumed       int64 // paths ended by a failed assumption
	Inconclusive  []string
	EngineErrors  []string
	Unwinding     int64
	Violations    map[string]*Violation
	Covers        map[string]int64
	Bounds        []string
	Samples       []*PathSample
	sampleSeen    int64
	Funcs         map[*ssa.Function]int64
	AssertsProved int64
	AssertsTotal  int64
	MaxTrail      int
	Terminals     map[string]int64 // how paths ended: return, panic:<x>, exit
	Wall          time.Duration
	pending       int64
}

func newHarnessRun(name string, fn *ssa.Function) *HarnessRun {
	return &HarnessRun{Name: name, Fn: fn, Violations: map[string]*Violation{}, Covers: map[string]int64{},
		Funcs: map[*ssa.Function]int64{}, Terminals: map[string]int64{}}
}

type Job struct {
	h     *HarnessRun
	trail []trailEntry
	model Model
}

// Options for an exploration.
type Options struct {
	Workers     int
	Tier        int // 0 quick, 1 thorough
	Seed        int64
	MaxSteps    int64
	MaxPaths    int64 // per harness; exceeding is an unwinding failure (inconclusive)
	Solver      SolverConfig
	SampleEvery int64
	MaxSamples  int
	Trace       bool
	Deadline    time.Time
}

// Path is the state of one execution.
type Path struct {
	h     *HarnessRun
	w     *Worker
	opts  *Options
	trail []trailEntry
	pos   int
	pc    []*Term
	pcset map[int32]bool
	vars  []*Term
	vseen map[int32]bool
	model Model
	ev    *evaluator

	inputs  []InputRec
	inames  map[string]bool
	obs     []Observation
	tags    []string
	covers  []string
	bounds  []string
	steps   int64
	funcs   map[*ssa.Function]int64
	decs    int64
	viols   []*Violation
	pool    *poolModel
	sched   *Sched
	fresh   int
	tokens  map[int32]*Token
	logical []string // logical call stack for modelled runtime.Callers
	events  []string

	extra      map[string]interface{}
	panicTrace string
	stepBudget int64 // raised by vrt.Budget for this path
	solverHint string
	tokCache   map[string][]value
	ranges     map[int32]*rng
	rangeHits  int64
}

type Worker struct {
	id        int
	solver    *Solver
	base      *baseState
	baseProg  *Program
	models    []Model
	modelNext int
	cacheHits int64
}

func (p *Path) setModel(m Model) {
	if m == nil {
		m = Model{}
	}
	p.model = m
	p.ev = newEvaluator(m)
}

func (p *Path) pushLit(t *Term) {
	if t.isTrue() {
		return
	}
	if !p.pcset[t.id] {
		p.pcset[t.id] = true
		p.pc = append(p.pc, t)
		p.learn(t)
		// split conjunctions so that their parts are known literals too
		if t.op == OpAnd {
			p.noteConj(t)
		}
	}
}

func (p *Path) noteVars(t *Term) {
	collectVars(t, p.vseen, &p.vars)
}

// known reports whether the literal is syntactically decided by the path condition.
func (p *Path) known(c *Term) (val, ok bool) {
	if c.op == OpConst {
		return c.val != 0, true
	}
	if p.pcset[c.id] {
		return true, true
	}
	if p.pcset[mkNot(c).id] {
		return false, true
	}
	if v, ok := p.byRange(c); ok {
		p.rangeHits++
		return v, true
	}
	return false, false
}

// noteConj records the conjuncts of a conjunction that holds.
func (p *Path) noteConj(t *Term) {
	for _, x := range []*Term{t.a, t.b} {
		if !p.pcset[x.id] {
			p.pcset[x.id] = true
			p.learn(x)
			if x.op == OpAnd {
				p.noteConj(x)
			}
		}
	}
}

func (p *Path) check(extra *Term, wantModel, assertion bool) (string, Model) {
	lits := make([]*Term, 0, len(p.pc)+1)
	lits = append(lits, p.pc...)
	if extra != nil {
		lits = append(lits, extra)
		p.noteVars(extra)
	}
	// a cached model of this worker that satisfies every literal is a witness of satisfiability
	if m := p.w.cachedModel(lits); m != nil {
		p.w.cacheHits++
		return "sat", m
	}
	res, m := p.w.solver.Check(lits, p.vars, wantModel, assertion, p.solverHint)
	if res == "sat" && m != nil {
		p.w.remember(m)
	}
	return res, m
}

const modelCacheSize = 24

func (w *Worker) remember(m Model) {
	if len(w.models) < modelCacheSize {
		w.models = append(w.models, m)
		return
	}
	w.models[w.modelNext%modelCacheSize] = m
	w.modelNext++
}

func (w *Worker) cachedModel(lits []*Term) Model {
	for k := len(w.models) - 1; k >= 0; k-- {
		m := w.models[k]
		ev := newEvaluator(m)
		ok := true
		for i := len(lits) - 1; i >= 0; i-- {
			if ev.eval(lits[i]) == 0 {
				ok = false
				break
			}
		}
		if ok {
			c := make(Model, len(m))
			for a, b := range m {
				c[a] = b
			}
			return c
		}
	}
	return nil
}

// decide resolves a symbolic branch condition.
func (p *Path) decide(c *Term) bool {
	if v, ok := p.known(c); ok {
		return v
	}
	p.noteVars(c)
	if p.pos < len(p.trail) {
		e := p.trail[p.pos]
		if e.kind != eBranch || e.lit != c.id {
			panic(engineError{fmt.Sprintf("non-deterministic replay at decision %d: trail has kind=%d lit=%d, now branch on t%d %s", p.pos, e.kind, e.lit, c.id, c)})
		}
		p.pos++
		if e.val == 1 {
			p.pushLit(c)
			return true
		}
		p.pushLit(mkNot(c))
		return false
	}
	p.decs++
	mv := p.ev.eval(c) != 0
	other := c
	if mv {
		other = mkNot(c)
	}
	res, m2 := p.check(other, true, false)
	switch res {
	case "sat":
		alt := make([]trailEntry, len(p.trail), len(p.trail)+1)
		copy(alt, p.trail)
		alt = append(alt, trailEntry{kind: eBranch, val: b2u(!mv), lit: c.id})
		p.enqueue(alt, m2)
	case "unsat":
	default:
		p.inconclusive("solver unknown on branch feasibility: " + c.String())
	}
	p.trail = append(p.trail, trailEntry{kind: eBranch, val: b2u(mv), lit: c.id})
	p.pos++
	if mv {
		p.pushLit(c)
	} else {
		p.pushLit(mkNot(c))
	}
	return mv
}

func (p *Path) enqueue(trail []trailEntry, m Model) {
	atomic.AddInt64(&p.h.pending, 1)
	c := make(Model, len(m))
	for k, v := range m {
		c[k] = v
	}
	theQueue.push(&Job{h: p.h, trail: trail, model: c})
}

func (p *Path) inconclusive(msg string) {
	p.h.mu.Lock()
	if len(p.h.Inconclusive) < 20 {
		p.h.Inconclusive = append(p.h.Inconclusive, msg)
	}
	p.h.mu.Unlock()
}

// choose makes an n-way nondeterministic choice, all alternatives explored.
func (p *Path) choose(n int, name string) int {
	if n <= 1 {
		return 0
	}
	if name != "" && forcedChoices != nil {
		if v, ok := forcedChoices[name]; ok && v < n {
			p.inputs = append(p.inputs, InputRec{Name: name, Kind: "choice", val: uint64(v)})
			return v
		}
	}
	var v uint64
	if p.pos < len(p.trail) {
		e := p.trail[p.pos]
		if e.kind != eChoice || int(e.lit) != n {
			panic(engineError{fmt.Sprintf("non-deterministic replay at decision %d: expected choice(%d) %q", p.pos, n, name)})
		}
		p.pos++
		v = e.val
	} else {
		p.decs++
		for k := n - 1; k >= 1; k-- {
			alt := make([]trailEntry, len(p.trail), len(p.trail)+1)
			copy(alt, p.trail)
			alt = append(alt, trailEntry{kind: eChoice, val: uint64(k), lit: int32(n)})
			p.enqueue(alt, p.model)
		}
		p.trail = append(p.trail, trailEntry{kind: eChoice, val: 0, lit: int32(n)})
		p.pos++
	}
	if name != "" {
		p.inputs = append(p.inputs, InputRec{Name: name, Kind: "choice", val: v})
	}
	return int(v)
}

func exclTerm(t *Term, excl []uint64) *Term {
	r := tTrue
	for _, x := range excl {
		r = mkAnd(r, mkNot(mkEq(t, mkConst(int(t.w), x))))
	}
	return r
}

// concretize forks over the values of t admitted by the path condition.
func (p *Path) concretize(t *Term, why string, limit int) uint64 {
	if t.op == OpConst {
		return t.val
	}
	p.noteVars(t)
	var e trailEntry
	if p.pos < len(p.trail) {
		e = p.trail[p.pos]
		if e.kind != eConc || e.lit != t.id {
			panic(engineError{fmt.Sprintf("non-deterministic replay at decision %d: expected concretisation of t%d (%s)", p.pos, t.id, why)})
		}
		if e.expand {
			p.trail[p.pos].expand = false
		}
	} else {
		p.decs++
		e = trailEntry{kind: eConc, val: p.ev.eval(t), lit: t.id, expand: true}
		p.trail = append(p.trail, trailEntry{kind: eConc, val: e.val, lit: t.id})
	}
	p.pos++
	for _, x := range e.excl {
		p.pushLit(mkNot(mkEq(t, mkConst(int(t.w), x))))
	}
	if e.expand {
		if limit > 0 && len(e.excl)+1 >= limit {
			// are there more values than the harness allows for?
			more := mkAnd(exclTerm(t, e.excl), mkNot(mkEq(t, mkConst(int(t.w), e.val))))
			if res, _ := p.check(more, false, false); res != "unsat" {
				panic(engineError{fmt.Sprintf("concretisation of %s exceeds %d values (%s)", t, limit, why)})
			}
		} else {
			nexcl := append(append([]uint64{}, e.excl...), e.val)
			more := exclTerm(t, nexcl)
			res, m2 := p.check(more, true, false)
			switch res {
			case "sat":
				alt := make([]trailEntry, p.pos-1, p.pos)
				copy(alt, p.trail[:p.pos-1])
				nv := newEvaluator(m2).eval(t)
				alt = append(alt, trailEntry{kind: eConc, val: nv, lit: t.id, excl: nexcl, expand: true})
				p.enqueue(alt, m2)
			case "unsat":
			default:
				p.inconclusive("solver unknown while enumerating values of " + t.String())
			}
		}
	}
	p.pushLit(mkEq(t, mkConst(int(t.w), e.val)))
	return e.val
}

// assume restricts the path; ends it if infeasible.
func (p *Path) assume(c *Term) {
	if v, ok := p.known(c); ok {
		if !v {
			panic(pathEnd{"assume"})
		}
		return
	}
	p.noteVars(c)
	if p.ev.eval(c) == 0 {
		res, m2 := p.check(c, true, false)
		switch res {
		case "sat":
			p.setModel(m2)
		case "unsat":
			panic(pathEnd{"assume"})
		default:
			p.inconclusive("solver unknown on assumption " + c.String())
			panic(pathEnd{"assume-unknown"})
		}
	}
	p.pushLit(c)
}

func (p *Path) snapshotInputs(m Model) (vals map[string]uint64, kinds map[string]string, order []string) {
	ev := newEvaluator(m)
	vals, kinds = map[string]uint64{}, map[string]string{}
	for _, in := range p.inputs {
		if in.term != nil {
			vals[in.Name] = ev.eval(in.term)
		} else {
			vals[in.Name] = in.val
		}
		kinds[in.Name] = in.Kind
		order = append(order, in.Name)
	}
	return
}

func (p *Path) trailString() string {
	var sb strings.Builder
	for i, e := range p.trail {
		if i >= p.pos {
			break
		}
		switch e.kind {
		case eBranch:
			fmt.Fprintf(&sb, "%d", e.val)
		case eChoice:
			fmt.Fprintf(&sb, "[%d/%d]", e.val, e.lit)
		case eConc:
			fmt.Fprintf(&sb, "{%d}", e.val)
		}
	}
	return sb.String()
}

func (p *Path) addViolation(kind, label, detail string, m Model) {
	vals, kinds, order := p.snapshotInputs(m)
	if on, _ := p.extra["interfered"].(bool); on && (kind == "assert" || kind == "fail" || kind == "panic") {
		// the path contains an operation of another goroutine placed right after a sync.Pool.Put: the
		// counterexample is a schedule, which a native sequential replay cannot reproduce
		kind = "interleaving"
		detail += " [another goroutine's log call scheduled right after a sync.Pool.Put]"
	}
	if kind == "panic" && p.panicTrace != "" {
		detail += " | at " + p.panicTrace
	}
	v := &Violation{Harness: p.h.Name, Label: label, Kind: kind, Detail: detail, Tags: append([]string{}, p.tags...), Schedule: p.sched != nil && len(p.sched.gs) > 1,
		Inputs: vals, Kinds: kinds, Order: order, Trail: p.trailString()}
	p.viols = append(p.viols, v)
}

// assert checks a property on the current path.
func (p *Path) assert(label string, c value) {
	atomic.AddInt64(&p.h.AssertsTotal, 1)
	switch c := c.(type) {
	case bool:
		if !c {
			p.addViolation("assert", label, "concrete", p.model)
			return
		}
		atomic.AddInt64(&p.h.AssertsProved, 1)
	case sym:
		t := c.t
		if v, ok := p.known(t); ok {
			if !v {
				p.addViolation("assert", label, "implied false", p.model)
				panic(pathEnd{"assert-false"})
			}
			atomic.AddInt64(&p.h.AssertsProved, 1)
			return
		}
		p.noteVars(t)
		if p.ev.eval(t) == 0 {
			p.addViolation("assert", label, "model "+t.String(), p.model)
			// continue on the side where the assertion holds, if any
			res, m2 := p.check(t, true, false)
			if res != "sat" {
				panic(pathEnd{"assert-false"})
			}
			p.setModel(m2)
			p.pushLit(t)
			return
		}
		res, m2 := p.check(mkNot(t), true, true)
		switch res {
		case "sat":
			p.addViolation("assert", label, "sat "+t.String(), m2)
		case "unsat":
			atomic.AddInt64(&p.h.AssertsProved, 1)
		default:
			p.inconclusive("solver unknown on assertion " + label)
		}
		p.pushLit(t)
	default:
		panic(engineError{fmt.Sprintf("assert on %T", c)})
	}
}

// ---- work queue

type jobQueue struct {
	mu   sync.Mutex
	cond *sync.Cond
	jobs []*Job
	busy int
	done bool
}

var theQueue *jobQueue

func newQueue() *jobQueue {
	q := &jobQueue{}
	q.cond = sync.NewCond(&q.mu)
	return q
}

func (q *jobQueue) push(j *Job) {
	q.mu.Lock()
	q.jobs = append(q.jobs, j)
	q.mu.Unlock()
	q.cond.Signal()
}

// pop returns the next job (LIFO: depth first), or nil when all work is finished.
func (q *jobQueue) pop() *Job {
	q.mu.Lock()
	defer q.mu.Unlock()
	for {
		if n := len(q.jobs); n > 0 {
			j := q.jobs[n-1]
			q.jobs = q.jobs[:n-1]
			q.busy++
			return j
		}
		if q.busy == 0 || q.done {
			q.done = true
			q.cond.Broadcast()
			return nil
		}
		q.cond.Wait()
	}
}

func (q *jobQueue) finish() {
	q.mu.Lock()
	q.busy--
	if q.busy == 0 && len(q.jobs) == 0 {
		q.done = true
		q.cond.Broadcast()
	}
	q.mu.Unlock()
}

// forcedChoices (debugging aid, env ZSYM_FIX="name=value,...") pins named choices instead of forking.
var forcedChoices = func() map[string]int {
	s := os.Getenv("ZSYM_FIX")
	if s == "" {
		return nil
	}
	m := map[string]int{}
	for _, kv := range strings.Split(s, ",") {
		k, v, _ := strings.Cut(kv, "=")
		n, _ := strconv.Atoi(v)
		m[k] = n
	}
	return m
}()
