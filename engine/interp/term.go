package interp

// Symbolic terms: hash-consed DAG over booleans and fixed-width bit-vectors.
// Floats are carried as IEEE bit patterns (bit-vectors of width 32/64) and are
// interpreted as floating point only inside the F* operators.

import (
	"fmt"
	"math"
	"math/bits"
	"strings"
	"sync"
)

type Op uint8

const (
	OpConst Op = iota
	OpVar
	// boolean
	OpNot
	OpAnd
	OpOr
	OpEq   // bv = bv, or bool = bool
	OpUlt  // bv
	OpUle  // bv
	OpSlt  // bv
	OpSle  // bv
	OpIte  // c ? a : b  (bv or bool)
	// bit-vector
	OpAdd
	OpSub
	OpMul
	OpUDiv
	OpSDiv
	OpURem
	OpSRem
	OpBAnd
	OpBOr
	OpBXor
	OpBNot
	OpNeg
	OpShl
	OpLShr
	OpAShr
	OpZExt    // val = extra bits
	OpSExt    // val = extra bits
	OpExtract // val = hi<<8|lo
	// floating point over bit patterns (width of args = 32 or 64)
	OpFEq
	OpFLt
	OpFLe
	OpFAdd
	OpFSub
	OpFMul
	OpFDiv
	OpFNeg
	OpFCvt    // fp -> fp of width w
	OpFFromS  // signed bv -> fp of width w
	OpFFromU  // unsigned bv -> fp of width w
	OpFToS    // fp -> signed bv of width w (round toward zero); unspecified when out of range
	OpFToU    // fp -> unsigned bv of width w
	OpFRound  // fp -> integral fp of the same width; val: 0 toward zero, 1 down, 2 up
)

var opNames = [...]string{
	OpConst: "const", OpVar: "var", OpNot: "not", OpAnd: "and", OpOr: "or", OpEq: "=",
	OpUlt: "bvult", OpUle: "bvule", OpSlt: "bvslt", OpSle: "bvsle", OpIte: "ite",
	OpAdd: "bvadd", OpSub: "bvsub", OpMul: "bvmul", OpUDiv: "bvudiv", OpSDiv: "bvsdiv",
	OpURem: "bvurem", OpSRem: "bvsrem", OpBAnd: "bvand", OpBOr: "bvor", OpBXor: "bvxor",
	OpBNot: "bvnot", OpNeg: "bvneg", OpShl: "bvshl", OpLShr: "bvlshr", OpAShr: "bvashr",
	OpZExt: "zero_extend", OpSExt: "sign_extend", OpExtract: "extract",
	OpFEq: "fp.eq", OpFLt: "fp.lt", OpFLe: "fp.leq", OpFAdd: "fp.add", OpFSub: "fp.sub",
	OpFMul: "fp.mul", OpFDiv: "fp.div", OpFNeg: "fp.neg", OpFCvt: "fcvt", OpFFromS: "ffroms",
	OpFFromU: "ffromu", OpFToS: "ftos", OpFToU: "ftou", OpFRound: "fround",
}

// Term is an immutable hash-consed node. w == 0 means Bool.
type Term struct {
	id      int32
	op      Op
	w       uint8
	a, b, c *Term
	val     uint64
	name    string
	kz, ko  uint64 // known-zero / known-one bits (bit-vector terms)
}

func (t *Term) ID() int32 { return t.id }

type termKey struct {
	op      Op
	w       uint8
	a, b, c int32
	val     uint64
	name    string
}

var (
	termMu    sync.Mutex
	termTab   = map[termKey]*Term{}
	termCount int32
	termByID  []*Term
)

func tid(t *Term) int32 {
	if t == nil {
		return -1
	}
	return t.id
}

func intern(op Op, w int, a, b, c *Term, val uint64, name string) *Term {
	k := termKey{op, uint8(w), tid(a), tid(b), tid(c), val, name}
	termMu.Lock()
	t := termTab[k]
	if t == nil {
		t = &Term{id: termCount, op: op, w: uint8(w), a: a, b: b, c: c, val: val, name: name}
		termCount++
		t.knownBits()
		termTab[k] = t
		termByID = append(termByID, t)
	}
	termMu.Unlock()
	if w > 0 && op != OpConst && t.kz|t.ko == mask(w) {
		return mkConst(w, t.ko)
	}
	if w == 0 && op == OpEq && a.w > 0 && b.op == OpConst {
		// a == const decided by known bits
		if a.ko&^b.val != 0 || a.kz&b.val != 0 {
			return tFalse
		}
	}
	return t
}

// knownBits computes which bits of a bit-vector term are fixed regardless of the variables.
func (t *Term) knownBits() {
	w := int(t.w)
	if w == 0 {
		return
	}
	m := mask(w)
	switch t.op {
	case OpConst:
		t.ko, t.kz = t.val&m, ^t.val&m
	case OpBAnd:
		t.ko = t.a.ko & t.b.ko
		t.kz = (t.a.kz | t.b.kz) & m
	case OpBOr:
		t.ko = (t.a.ko | t.b.ko) & m
		t.kz = t.a.kz & t.b.kz
	case OpBXor:
		t.ko = (t.a.ko&t.b.kz | t.a.kz&t.b.ko) & m
		t.kz = (t.a.ko&t.b.ko | t.a.kz&t.b.kz) & m
	case OpBNot:
		t.ko, t.kz = t.a.kz, t.a.ko
	case OpZExt:
		t.ko = t.a.ko
		t.kz = (t.a.kz | (m &^ mask(int(t.a.w)))) & m
	case OpExtract:
		hi, lo := int(t.val>>8), int(t.val&0xff)
		mm := mask(hi - lo + 1)
		t.ko = (t.a.ko >> uint(lo)) & mm
		t.kz = (t.a.kz >> uint(lo)) & mm
	case OpShl:
		if t.b.op == OpConst && t.b.val < uint64(w) {
			sh := uint(t.b.val)
			t.ko = (t.a.ko << sh) & m
			t.kz = ((t.a.kz << sh) | mask(int(sh))) & m
		}
	case OpLShr:
		if t.b.op == OpConst && t.b.val < uint64(w) {
			sh := uint(t.b.val)
			t.ko = t.a.ko >> sh
			t.kz = ((t.a.kz >> sh) | (m &^ (m >> sh))) & m
		}
	case OpIte:
		t.ko = t.b.ko & t.c.ko
		t.kz = t.b.kz & t.c.kz
	}
}

func mask(w int) uint64 {
	if w >= 64 {
		return ^uint64(0)
	}
	return (uint64(1) << uint(w)) - 1
}

func sext64(v uint64, w int) int64 {
	if w >= 64 {
		return int64(v)
	}
	sh := uint(64 - w)
	return int64(v<<sh) >> sh
}

var tTrue, tFalse *Term

func init() {
	tTrue = intern(OpConst, 0, nil, nil, nil, 1, "")
	tFalse = intern(OpConst, 0, nil, nil, nil, 0, "")
}

func mkBool(b bool) *Term {
	if b {
		return tTrue
	}
	return tFalse
}

func mkConst(w int, v uint64) *Term {
	if w == 0 {
		return mkBool(v != 0)
	}
	return intern(OpConst, w, nil, nil, nil, v&mask(w), "")
}

func mkVar(name string, w int) *Term { return intern(OpVar, w, nil, nil, nil, 0, name) }

func (t *Term) isConst() bool { return t.op == OpConst }
func (t *Term) isTrue() bool  { return t == tTrue }
func (t *Term) isFalse() bool { return t == tFalse }

func mkNot(a *Term) *Term {
	if a.op == OpConst {
		return mkBool(a.val == 0)
	}
	if a.op == OpNot {
		return a.a
	}
	return intern(OpNot, 0, a, nil, nil, 0, "")
}

func mkAnd(a, b *Term) *Term {
	switch {
	case a.isFalse() || b.isFalse():
		return tFalse
	case a.isTrue():
		return b
	case b.isTrue():
		return a
	case a == b:
		return a
	case a == mkNot(b):
		return tFalse
	}
	if a.id > b.id {
		a, b = b, a
	}
	return intern(OpAnd, 0, a, b, nil, 0, "")
}

func mkOr(a, b *Term) *Term {
	switch {
	case a.isTrue() || b.isTrue():
		return tTrue
	case a.isFalse():
		return b
	case b.isFalse():
		return a
	case a == b:
		return a
	case a == mkNot(b):
		return tTrue
	}
	if a.id > b.id {
		a, b = b, a
	}
	return intern(OpOr, 0, a, b, nil, 0, "")
}

func mkIte(c, a, b *Term) *Term {
	if c.isTrue() {
		return a
	}
	if c.isFalse() {
		return b
	}
	if a == b {
		return a
	}
	if a.w == 0 {
		if a.isTrue() && b.isFalse() {
			return c
		}
		if a.isFalse() && b.isTrue() {
			return mkNot(c)
		}
	}
	if c.op == OpNot {
		return mkIte(c.a, b, a)
	}
	return intern(OpIte, int(a.w), c, a, b, 0, "")
}

func mkEq(a, b *Term) *Term {
	if a == b {
		return tTrue
	}
	if a.w != b.w {
		panic(fmt.Sprintf("mkEq width mismatch %d %d", a.w, b.w))
	}
	if a.op == OpConst && b.op == OpConst {
		return mkBool(a.val == b.val)
	}
	if a.w == 0 {
		if a.op == OpConst {
			a, b = b, a
		}
		if b.isTrue() {
			return a
		}
		if b.isFalse() {
			return mkNot(a)
		}
	}
	// ite(c, k1, k2) == k  with constants folds to c / !c / false
	if b.op == OpConst && a.op == OpIte && a.b.op == OpConst && a.c.op == OpConst {
		switch {
		case a.b.val == b.val && a.c.val != b.val:
			return a.a
		case a.b.val != b.val && a.c.val == b.val:
			return mkNot(a.a)
		case a.b.val != b.val && a.c.val != b.val:
			return tFalse
		}
	}
	if a.op == OpConst && b.op == OpIte && b.b.op == OpConst && b.c.op == OpConst {
		return mkEq(b, a)
	}
	// zext(x) == const
	if b.op == OpConst && (a.op == OpZExt) {
		iw := int(a.a.w)
		if b.val&^mask(iw) != 0 {
			return tFalse
		}
		return mkEq(a.a, mkConst(iw, b.val))
	}
	if a.op == OpConst && b.op == OpZExt {
		return mkEq(b, a)
	}
	if a.id > b.id {
		a, b = b, a
	}
	return intern(OpEq, 0, a, b, nil, 0, "")
}

func mkCmp(op Op, a, b *Term) *Term {
	if a.w != b.w {
		panic(fmt.Sprintf("mkCmp width mismatch %s %d %d", opNames[op], a.w, b.w))
	}
	if a.op == OpConst && b.op == OpConst {
		return mkBool(evalCmp(op, int(a.w), a.val, b.val))
	}
	if a == b {
		switch op {
		case OpUlt, OpSlt:
			return tFalse
		case OpUle, OpSle:
			return tTrue
		}
	}
	w := int(a.w)
	switch op {
	case OpUlt:
		if b.op == OpConst && b.val == 0 {
			return tFalse
		}
		if a.op == OpConst && a.val == mask(w) {
			return tFalse
		}
	case OpUle:
		if a.op == OpConst && a.val == 0 {
			return tTrue
		}
		if b.op == OpConst && b.val == mask(w) {
			return tTrue
		}
	}
	// unsigned comparisons of zero-extended values against constants
	if (op == OpUlt || op == OpUle || op == OpSlt || op == OpSle) && a.op == OpZExt && b.op == OpConst {
		iw := int(a.a.w)
		bv := b.val
		if op == OpSlt || op == OpSle {
			if sext64(bv, w) < 0 {
				return tFalse
			}
		}
		if bv > mask(iw) {
			return tTrue
		}
		uop := OpUlt
		if op == OpUle || op == OpSle {
			uop = OpUle
		}
		return mkCmp(uop, a.a, mkConst(iw, bv))
	}
	if (op == OpUlt || op == OpUle || op == OpSlt || op == OpSle) && b.op == OpZExt && a.op == OpConst {
		iw := int(b.a.w)
		av := a.val
		if op == OpSlt || op == OpSle {
			if sext64(av, w) < 0 {
				return tTrue
			}
		}
		if av > mask(iw) {
			return tFalse
		}
		uop := OpUlt
		if op == OpUle || op == OpSle {
			uop = OpUle
		}
		return mkCmp(uop, mkConst(iw, av), b.a)
	}
	return intern(op, 0, a, b, nil, 0, "")
}

func evalCmp(op Op, w int, a, b uint64) bool {
	switch op {
	case OpUlt:
		return a < b
	case OpUle:
		return a <= b
	case OpSlt:
		return sext64(a, w) < sext64(b, w)
	case OpSle:
		return sext64(a, w) <= sext64(b, w)
	}
	panic("evalCmp")
}

func evalBin(op Op, w int, a, b uint64) uint64 {
	m := mask(w)
	switch op {
	case OpAdd:
		return (a + b) & m
	case OpSub:
		return (a - b) & m
	case OpMul:
		return (a * b) & m
	case OpUDiv:
		if b == 0 {
			return m
		}
		return a / b
	case OpURem:
		if b == 0 {
			return a
		}
		return a % b
	case OpSDiv:
		sa, sb := sext64(a, w), sext64(b, w)
		if sb == 0 {
			if sa < 0 {
				return 1
			}
			return m
		}
		if sa == math.MinInt64 && sb == -1 {
			return uint64(sa) & m
		}
		return uint64(sa/sb) & m
	case OpSRem:
		sa, sb := sext64(a, w), sext64(b, w)
		if sb == 0 {
			return a
		}
		if sb == -1 {
			return 0
		}
		return uint64(sa%sb) & m
	case OpBAnd:
		return a & b
	case OpBOr:
		return a | b
	case OpBXor:
		return a ^ b
	case OpShl:
		if b >= uint64(w) {
			return 0
		}
		return (a << b) & m
	case OpLShr:
		if b >= uint64(w) {
			return 0
		}
		return a >> b
	case OpAShr:
		sa := sext64(a, w)
		if b >= uint64(w) {
			if sa < 0 {
				return m
			}
			return 0
		}
		return uint64(sa>>b) & m
	}
	panic("evalBin " + opNames[op])
}

func mkBin(op Op, a, b *Term) *Term {
	if a.w != b.w {
		panic(fmt.Sprintf("mkBin %s width mismatch %d %d", opNames[op], a.w, b.w))
	}
	w := int(a.w)
	if a.op == OpConst && b.op == OpConst {
		return mkConst(w, evalBin(op, w, a.val, b.val))
	}
	switch op {
	case OpAdd:
		if a.op == OpConst && a.val == 0 {
			return b
		}
		if b.op == OpConst && b.val == 0 {
			return a
		}
		// (x + c1) + c2
		if b.op == OpConst && a.op == OpAdd && a.b.op == OpConst {
			return mkBin(OpAdd, a.a, mkConst(w, a.b.val+b.val))
		}
		if a.op == OpConst {
			a, b = b, a
		}
	case OpSub:
		if b.op == OpConst && b.val == 0 {
			return a
		}
		if a == b {
			return mkConst(w, 0)
		}
		if b.op == OpConst {
			return mkBin(OpAdd, a, mkConst(w, -b.val))
		}
	case OpMul:
		if a.op == OpConst {
			a, b = b, a
		}
		if b.op == OpConst {
			if b.val == 0 {
				return b
			}
			if b.val == 1 {
				return a
			}
		}
	case OpBAnd:
		if a == b {
			return a
		}
		if a.op == OpConst {
			a, b = b, a
		}
		if b.op == OpConst {
			if b.val == 0 {
				return b
			}
			if b.val == mask(w) {
				return a
			}
			// zext(x) & m where m covers x's width
			if a.op == OpZExt && b.val&mask(int(a.a.w)) == mask(int(a.a.w)) {
				return a
			}
		}
	case OpBOr:
		if a == b {
			return a
		}
		if a.op == OpConst {
			a, b = b, a
		}
		if b.op == OpConst {
			if b.val == 0 {
				return a
			}
			if b.val == mask(w) {
				return b
			}
		}
	case OpBXor:
		if a == b {
			return mkConst(w, 0)
		}
		if a.op == OpConst {
			a, b = b, a
		}
		if b.op == OpConst && b.val == 0 {
			return a
		}
	case OpShl, OpLShr, OpAShr:
		if b.op == OpConst && b.val == 0 {
			return a
		}
		if b.op == OpConst && b.val >= uint64(w) && op != OpAShr {
			return mkConst(w, 0)
		}
		// zext(x:8) >> k with k >= 8 is 0; common in utf8 code
		if op == OpLShr && b.op == OpConst && a.op == OpZExt && b.val >= uint64(a.a.w) {
			return mkConst(w, 0)
		}
	case OpUDiv, OpSDiv:
		if b.op == OpConst && b.val == 1 {
			return a
		}
	}
	return intern(op, w, a, b, nil, 0, "")
}

func mkBNot(a *Term) *Term {
	if a.op == OpConst {
		return mkConst(int(a.w), ^a.val)
	}
	if a.op == OpBNot {
		return a.a
	}
	return intern(OpBNot, int(a.w), a, nil, nil, 0, "")
}

func mkNeg(a *Term) *Term {
	if a.op == OpConst {
		return mkConst(int(a.w), -a.val)
	}
	return intern(OpNeg, int(a.w), a, nil, nil, 0, "")
}

func mkZExt(a *Term, to int) *Term {
	w := int(a.w)
	if to == w {
		return a
	}
	if to < w {
		return mkExtract(a, to-1, 0)
	}
	if a.op == OpConst {
		return mkConst(to, a.val)
	}
	if a.op == OpZExt {
		return mkZExt(a.a, to)
	}
	return intern(OpZExt, to, a, nil, nil, uint64(to-w), "")
}

func mkSExt(a *Term, to int) *Term {
	w := int(a.w)
	if to == w {
		return a
	}
	if to < w {
		return mkExtract(a, to-1, 0)
	}
	if a.op == OpConst {
		return mkConst(to, uint64(sext64(a.val, w)))
	}
	return intern(OpSExt, to, a, nil, nil, uint64(to-w), "")
}

func mkExtract(a *Term, hi, lo int) *Term {
	w := hi - lo + 1
	if lo == 0 && w == int(a.w) {
		return a
	}
	if a.op == OpConst {
		return mkConst(w, a.val>>uint(lo))
	}
	if lo == 0 && (a.op == OpZExt || a.op == OpSExt) {
		iw := int(a.a.w)
		if w == iw {
			return a.a
		}
		if w < iw {
			return mkExtract(a.a, hi, 0)
		}
		if a.op == OpZExt {
			return mkZExt(a.a, w)
		}
		return mkSExt(a.a, w)
	}
	if lo == 0 && a.op == OpIte && a.b.op == OpConst && a.c.op == OpConst {
		return mkIte(a.a, mkExtract(a.b, hi, lo), mkExtract(a.c, hi, lo))
	}
	return intern(OpExtract, w, a, nil, nil, uint64(hi)<<8|uint64(lo), "")
}

// ---- floating point helpers

func fbits2f(v uint64, w int) float64 {
	if w == 32 {
		return float64(math.Float32frombits(uint32(v)))
	}
	return math.Float64frombits(v)
}

func f2fbits(f float64, w int) uint64 {
	if w == 32 {
		return uint64(math.Float32bits(float32(f)))
	}
	return math.Float64bits(f)
}

// fpFinite reports whether t (an IEEE bit pattern) is certainly a finite number (no NaN, no infinity).
func fpFinite(t *Term) bool {
	switch t.op {
	case OpConst:
		f := fbits2f(t.val, int(t.w))
		return !math.IsNaN(f) && !math.IsInf(f, 0)
	case OpFFromS, OpFFromU:
		return int(t.w) == 64 || int(t.a.w) <= 64 && int(t.w) == 32 // |int64| <= 2^64 < MaxFloat32
	case OpFDiv:
		// finite / constant with |c| >= 1 cannot overflow
		if t.b.op == OpConst && fpFinite(t.a) {
			c := math.Abs(fbits2f(t.b.val, int(t.b.w)))
			return c >= 1 && !math.IsInf(c, 0)
		}
	case OpFCvt:
		return int(t.w) >= int(t.a.w) && fpFinite(t.a)
	case OpIte:
		return fpFinite(t.b) && fpFinite(t.c)
	}
	return false
}

func mkFCmp(op Op, a, b *Term) *Term {
	if op == OpFEq && a == b && fpFinite(a) {
		return tTrue
	}
	if op == OpFLt || op == OpFLe {
		// comparisons against the extreme finite values
		if a.op == OpConst && fpFinite(b) {
			if f := fbits2f(a.val, int(a.w)); f == math.MaxFloat64 || (a.w == 32 && f == math.MaxFloat32) {
				if op == OpFLt {
					return tFalse
				}
			}
		}
		if b.op == OpConst && fpFinite(a) {
			if f := fbits2f(b.val, int(b.w)); f == -math.MaxFloat64 || (b.w == 32 && f == -math.MaxFloat32) {
				if op == OpFLt {
					return tFalse
				}
			}
		}
	}
	if a.op == OpConst && b.op == OpConst {
		x, y := fbits2f(a.val, int(a.w)), fbits2f(b.val, int(b.w))
		switch op {
		case OpFEq:
			return mkBool(x == y)
		case OpFLt:
			return mkBool(x < y)
		case OpFLe:
			return mkBool(x <= y)
		}
	}
	return intern(op, 0, a, b, nil, 0, "")
}

func evalFBin(op Op, w int, a, b uint64) uint64 {
	if w == 32 {
		x, y := math.Float32frombits(uint32(a)), math.Float32frombits(uint32(b))
		var r float32
		switch op {
		case OpFAdd:
			r = x + y
		case OpFSub:
			r = x - y
		case OpFMul:
			r = x * y
		case OpFDiv:
			r = x / y
		}
		return uint64(math.Float32bits(r))
	}
	x, y := math.Float64frombits(a), math.Float64frombits(b)
	var r float64
	switch op {
	case OpFAdd:
		r = x + y
	case OpFSub:
		r = x - y
	case OpFMul:
		r = x * y
	case OpFDiv:
		r = x / y
	}
	return math.Float64bits(r)
}

func mkFBin(op Op, a, b *Term) *Term {
	if a.op == OpConst && b.op == OpConst {
		return mkConst(int(a.w), evalFBin(op, int(a.w), a.val, b.val))
	}
	return intern(op, int(a.w), a, b, nil, 0, "")
}

func mkFNeg(a *Term) *Term {
	// sign-bit flip, exact for every value including NaN (matches Go's -x on hardware)
	return mkBin(OpBXor, a, mkConst(int(a.w), uint64(1)<<(uint(a.w)-1)))
}

func evalFConv(op Op, w int, a uint64, aw int) uint64 {
	switch op {
	case OpFCvt:
		if aw == w {
			return a
		}
		if aw == 32 {
			return math.Float64bits(float64(math.Float32frombits(uint32(a))))
		}
		return uint64(math.Float32bits(float32(math.Float64frombits(a))))
	case OpFFromS:
		return f2fbitsExact(float64(sext64(a, aw)), sext64(a, aw), true, a, w)
	case OpFFromU:
		return f2fbitsExact(float64(a), 0, false, a, w)
	case OpFToS:
		f := fbits2f(a, aw)
		return uint64(int64(f)) & mask(w)
	case OpFToU:
		f := fbits2f(a, aw)
		return uint64(f) & mask(w)
	}
	panic("evalFConv")
}

func f2fbitsExact(_ float64, s int64, signed bool, u uint64, w int) uint64 {
	if w == 32 {
		if signed {
			return uint64(math.Float32bits(float32(s)))
		}
		return uint64(math.Float32bits(float32(u)))
	}
	if signed {
		return math.Float64bits(float64(s))
	}
	return math.Float64bits(float64(u))
}

func evalFRound(mode uint64, a uint64, w int) uint64 {
	f := fbits2f(a, w)
	switch mode {
	case 0:
		f = math.Trunc(f)
	case 1:
		f = math.Floor(f)
	case 2:
		f = math.Ceil(f)
	}
	if math.IsNaN(f) {
		return a
	}
	if w == 32 {
		return uint64(math.Float32bits(float32(f)))
	}
	return math.Float64bits(f)
}

func mkFRound(a *Term, mode uint64) *Term {
	if a.op == OpConst {
		return mkConst(int(a.w), evalFRound(mode, a.val, int(a.w)))
	}
	return intern(OpFRound, int(a.w), a, nil, nil, mode, "")
}

func mkFConv(op Op, a *Term, w int) *Term {
	if a.op == OpConst {
		return mkConst(w, evalFConv(op, w, a.val, int(a.w)))
	}
	if op == OpFCvt && int(a.w) == w {
		return a
	}
	return intern(op, w, a, nil, nil, 0, "")
}

// ---- evaluation under a model

type Model map[int32]uint64 // var term id -> value

type evaluator struct {
	m     Model
	cache map[int32]uint64
}

func newEvaluator(m Model) *evaluator { return &evaluator{m: m, cache: map[int32]uint64{}} }

func (e *evaluator) eval(t *Term) uint64 {
	switch t.op {
	case OpConst:
		return t.val
	case OpVar:
		return e.m[t.id] & mask64(int(t.w))
	}
	if v, ok := e.cache[t.id]; ok {
		return v
	}
	var r uint64
	w := int(t.w)
	switch t.op {
	case OpNot:
		r = e.eval(t.a) ^ 1
	case OpAnd:
		r = e.eval(t.a) & e.eval(t.b)
	case OpOr:
		r = e.eval(t.a) | e.eval(t.b)
	case OpEq:
		r = b2u(e.eval(t.a) == e.eval(t.b))
	case OpUlt, OpUle, OpSlt, OpSle:
		r = b2u(evalCmp(t.op, int(t.a.w), e.eval(t.a), e.eval(t.b)))
	case OpIte:
		if e.eval(t.a) != 0 {
			r = e.eval(t.b)
		} else {
			r = e.eval(t.c)
		}
	case OpAdd, OpSub, OpMul, OpUDiv, OpSDiv, OpURem, OpSRem, OpBAnd, OpBOr, OpBXor, OpShl, OpLShr, OpAShr:
		r = evalBin(t.op, w, e.eval(t.a), e.eval(t.b))
	case OpBNot:
		r = ^e.eval(t.a) & mask(w)
	case OpNeg:
		r = -e.eval(t.a) & mask(w)
	case OpZExt:
		r = e.eval(t.a)
	case OpSExt:
		r = uint64(sext64(e.eval(t.a), int(t.a.w))) & mask(w)
	case OpExtract:
		hi, lo := int(t.val>>8), int(t.val&0xff)
		r = (e.eval(t.a) >> uint(lo)) & mask(hi-lo+1)
	case OpFEq, OpFLt, OpFLe:
		x, y := fbits2f(e.eval(t.a), int(t.a.w)), fbits2f(e.eval(t.b), int(t.b.w))
		switch t.op {
		case OpFEq:
			r = b2u(x == y)
		case OpFLt:
			r = b2u(x < y)
		case OpFLe:
			r = b2u(x <= y)
		}
	case OpFAdd, OpFSub, OpFMul, OpFDiv:
		r = evalFBin(t.op, w, e.eval(t.a), e.eval(t.b))
	case OpFCvt, OpFFromS, OpFFromU, OpFToS, OpFToU:
		r = evalFConv(t.op, w, e.eval(t.a), int(t.a.w))
	case OpFRound:
		r = evalFRound(t.val, e.eval(t.a), w)
	default:
		panic("eval: " + opNames[t.op])
	}
	e.cache[t.id] = r
	return r
}

func mask64(w int) uint64 {
	if w == 0 {
		return 1
	}
	return mask(w)
}

func b2u(b bool) uint64 {
	if b {
		return 1
	}
	return 0
}

// ---- SMT-LIB printing

func sortOf(t *Term) string {
	if t.w == 0 {
		return "Bool"
	}
	return fmt.Sprintf("(_ BitVec %d)", t.w)
}

func fpSort(w int) (eb, sb int) {
	if w == 32 {
		return 8, 24
	}
	return 11, 53
}

func toFP(ref string, w int) string {
	eb, sb := fpSort(w)
	return fmt.Sprintf("((_ to_fp %d %d) %s)", eb, sb, ref)
}

// ref returns the SMT reference for t: literal for leaves, "t<id>" for defined nodes.
func ref(t *Term) string {
	switch t.op {
	case OpConst:
		if t.w == 0 {
			if t.val != 0 {
				return "true"
			}
			return "false"
		}
		return fmt.Sprintf("(_ bv%d %d)", t.val, t.w)
	case OpVar:
		return t.name
	}
	return fmt.Sprintf("t%d", t.id)
}

// body returns the SMT expression of t in terms of refs of its children.
func body(t *Term) string {
	switch t.op {
	case OpNot, OpBNot, OpNeg:
		return "(" + opNames[t.op] + " " + ref(t.a) + ")"
	case OpIte:
		return "(ite " + ref(t.a) + " " + ref(t.b) + " " + ref(t.c) + ")"
	case OpZExt, OpSExt:
		return fmt.Sprintf("((_ %s %d) %s)", opNames[t.op], t.val, ref(t.a))
	case OpExtract:
		return fmt.Sprintf("((_ extract %d %d) %s)", t.val>>8, t.val&0xff, ref(t.a))
	case OpFEq, OpFLt, OpFLe:
		return "(" + opNames[t.op] + " " + toFP(ref(t.a), int(t.a.w)) + " " + toFP(ref(t.b), int(t.b.w)) + ")"
	case OpFAdd, OpFSub, OpFMul, OpFDiv:
		// NaN results: SMT has a single NaN; to_ieee_bv substitute via fp.to_ieee_bv is not in z3 4.8 for all; use a fresh-free
		// encoding: result bits r such that to_fp(r) = op(...) is not functional for NaN. We therefore canonicalise
		// NaN to the Go quiet NaN pattern with an ite.
		w := int(t.w)
		e := "(" + opNames[t.op] + " RNE " + toFP(ref(t.a), w) + " " + toFP(ref(t.b), w) + ")"
		return fpToBits(e, w)
	case OpFCvt:
		eb, sb := fpSort(int(t.w))
		e := fmt.Sprintf("((_ to_fp %d %d) RNE %s)", eb, sb, toFP(ref(t.a), int(t.a.w)))
		// NaN payload propagation differs by hardware; canonicalise like the others
		return fpToBits(e, int(t.w))
	case OpFFromS:
		eb, sb := fpSort(int(t.w))
		return fpToBits(fmt.Sprintf("((_ to_fp %d %d) RNE %s)", eb, sb, ref(t.a)), int(t.w))
	case OpFFromU:
		eb, sb := fpSort(int(t.w))
		return fpToBits(fmt.Sprintf("((_ to_fp_unsigned %d %d) RNE %s)", eb, sb, ref(t.a)), int(t.w))
	case OpFToS:
		return fmt.Sprintf("((_ fp.to_sbv %d) RTZ %s)", t.w, toFP(ref(t.a), int(t.a.w)))
	case OpFToU:
		return fmt.Sprintf("((_ fp.to_ubv %d) RTZ %s)", t.w, toFP(ref(t.a), int(t.a.w)))
	case OpFRound:
		mode := []string{"RTZ", "RTN", "RTP"}[t.val]
		// NaN keeps its payload (Go returns its argument), everything else is rounded
		return fmt.Sprintf("(ite (fp.isNaN %s) %s (fp.to_ieee_bv (fp.roundToIntegral %s %s)))", toFP(ref(t.a), int(t.w)), ref(t.a), mode, toFP(ref(t.a), int(t.w)))
	}
	return "(" + opNames[t.op] + " " + ref(t.a) + " " + ref(t.b) + ")"
}

func fpToBits(e string, w int) string {
	nan := uint64(0x7ff8000000000001)
	if w == 32 {
		nan = 0x7fc00000
	}
	return fmt.Sprintf("(let ((fpv %s)) (ite (fp.isNaN fpv) (_ bv%d %d) (fp.to_ieee_bv fpv)))", e, nan, w)
}

// String renders a term as a (tree) S-expression for diagnostics; truncated.
func (t *Term) String() string {
	var sb strings.Builder
	t.write(&sb, 0)
	return sb.String()
}

func (t *Term) write(sb *strings.Builder, depth int) {
	if sb.Len() > 400 {
		sb.WriteString("…")
		return
	}
	switch t.op {
	case OpConst, OpVar:
		if t.op == OpConst && t.w != 0 {
			fmt.Fprintf(sb, "%d", t.val)
		} else {
			sb.WriteString(ref(t))
		}
		return
	}
	if depth > 6 {
		fmt.Fprintf(sb, "t%d", t.id)
		return
	}
	sb.WriteString("(" + opNames[t.op])
	for _, x := range []*Term{t.a, t.b, t.c} {
		if x != nil {
			sb.WriteString(" ")
			x.write(sb, depth+1)
		}
	}
	sb.WriteString(")")
}

// vars collects the variable terms below t.
func collectVars(t *Term, seen map[int32]bool, out *[]*Term) {
	if t == nil || seen[t.id] {
		return
	}
	seen[t.id] = true
	if t.op == OpVar {
		*out = append(*out, t)
		return
	}
	collectVars(t.a, seen, out)
	collectVars(t.b, seen, out)
	collectVars(t.c, seen, out)
}

var _ = bits.Len64
