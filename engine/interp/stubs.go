package interp

// Contract stubs for library code that cannot (or should not) be executed
// symbolically: strconv number formatting, fmt, time formatting, base64.
// Concrete arguments are always computed natively (exact); symbolic arguments
// yield tokens: fresh symbolic bytes constrained to the documented alphabet
// and registered so that harness oracles can recover the value they stand for.

import (
	"encoding/base64"
	"fmt"
	"go/token"
	"go/types"
	"math"
	"strconv"
	"strings"
	"time"

	"golang.org/x/tools/go/ssa"
)

type Token struct {
	ID     int
	Kind   string // "int", "uint", "float", "time", "dur", "b64", "fmt"
	Val    *Term
	Bits   int
	first  int32                       // id of the first byte variable of the token
	render func(ev *evaluator) string // what the real library prints for the token's bytes under a model
}

func (p *Path) tokenOf(b value) *Token {
	s, ok := b.(sym)
	if !ok || s.t.op != OpVar {
		return nil
	}
	return p.tokens[s.t.id]
}

func (p *Path) newToken(kind string, val *Term, bits int) *Token {
	p.fresh++
	return &Token{ID: p.fresh, Kind: kind, Val: val, Bits: bits}
}

// tokByte creates a fresh symbolic byte belonging to tk, constrained to the given set of ranges.
func (p *Path) tokByte(tk *Token, ranges ...[2]byte) value {
	b := p.freshInternal("tok"+tk.Kind, types.Uint8)
	p.tokens[b.t.id] = tk
	if tk.first == 0 {
		tk.first = b.t.id
	}
	c := tFalse
	for _, r := range ranges {
		c = mkOr(c, mkAnd(mkCmp(OpUle, mkConst(8, uint64(r[0])), b.t), mkCmp(OpUle, b.t, mkConst(8, uint64(r[1])))))
	}
	p.pushLit(c)
	// keep the model consistent with the new constraint
	p.model[b.t.id] = uint64(ranges[0][0])
	p.ev = newEvaluator(p.model)
	return b
}

var digit = [2]byte{'0', '9'}

func bytesToValues(b []byte) []value {
	out := make([]value, len(b))
	for i, c := range b {
		out[i] = c
	}
	return out
}

// appendIntToken: "-"? digit+  (1 or 2 digit bytes stand for the whole digit string).
func (p *Path) intToken(v sym, signed bool, fr *frame) (out []value) {
	kind := "uint"
	if signed {
		kind = "int"
	}
	w, _ := kindInfo(v.k)
	val := v.t
	if w < 64 {
		if signed {
			val = mkSExt(val, 64)
		} else {
			val = mkZExt(val, 64)
		}
	}
	ck := fmt.Sprintf("%s:%d", kind, val.id)
	if cached, ok := p.tokCache[ck]; ok {
		return append([]value{}, cached...) // the same value always formats to the same text
	}
	tk := p.newToken(kind, val, 64)
	defer func() { p.tokCache[ck] = append([]value{}, out...) }()
	if signed && fr.cond(valueOf(mkCmp(OpSlt, val, mkConst(64, 0)), types.Bool)) {
		out = append(out, byte('-'))
	}
	// the magnitude is one token byte standing for the whole digit string (zap observes only that something
	// was appended and what the last byte is); observations render the real digits
	tk.render = func(ev *evaluator) string {
		v := ev.eval(val)
		if signed {
			s := strconv.FormatInt(int64(v), 10)
			return strings.TrimPrefix(s, "-")
		}
		return strconv.FormatUint(v, 10)
	}
	out = append(out, p.tokByte(tk, digit))
	return out
}

func (p *Path) floatToken(f sym, bits int, fr *frame, fmtByte byte) []value {
	w, _ := kindInfo(f.k)
	t := f.t
	if !fpFinite(t) {
		isNaN := mkNot(mkFCmp(OpFEq, t, t))
		if fr.cond(valueOf(isNaN, types.Bool)) {
			return bytesToValues([]byte("NaN"))
		}
		inf := mkConst(w, f2fbits(math.Inf(1), w))
		ninf := mkConst(w, f2fbits(math.Inf(-1), w))
		if fr.cond(valueOf(mkEq(t, inf), types.Bool)) {
			return bytesToValues([]byte("+Inf"))
		}
		if fr.cond(valueOf(mkEq(t, ninf), types.Bool)) {
			return bytesToValues([]byte("-Inf"))
		}
	}
	ck := fmt.Sprintf("float:%d:%d:%c", t.id, bits, fmtByte)
	if cached, ok := p.tokCache[ck]; ok {
		return append([]value{}, cached...) // the same value always formats to the same text
	}
	tk := p.newToken("float", t, w)
	var out []value
	defer func() { p.tokCache[ck] = append([]value{}, out...) }()
	signbit := fpSignTerm(t)
	if fr.cond(valueOf(signbit, types.Bool)) {
		out = append(out, byte('-'))
	}
	tk.render = func(ev *evaluator) string {
		f := fbits2f(ev.eval(t), w)
		s := strconv.FormatFloat(f, fmtByte, -1, bits)
		return strings.TrimPrefix(s, "-")
	}
	_ = fmtByte
	out = append(out, p.tokByte(tk, digit))
	return out
}

func toGoString(v value) (string, bool) {
	s, ok := v.(string)
	return s, ok
}

func init() {
	I := intrinsics

	I["strconv.AppendInt"] = func(fr *frame, args []value) value {
		dst := args[0].([]value)
		if s, ok := args[1].(sym); ok {
			if b, ok := args[2].(int); !ok || b != 10 {
				panic(engineError{"strconv.AppendInt of a symbolic value with base != 10"})
			}
			return append(dst, fr.i.p.intToken(s, true, fr)...)
		}
		return append(dst, bytesToValues(strconv.AppendInt(nil, args[1].(int64), args[2].(int)))...)
	}
	I["strconv.AppendUint"] = func(fr *frame, args []value) value {
		dst := args[0].([]value)
		if s, ok := args[1].(sym); ok {
			if b, ok := args[2].(int); !ok || b != 10 {
				panic(engineError{"strconv.AppendUint of a symbolic value with base != 10"})
			}
			return append(dst, fr.i.p.intToken(s, false, fr)...)
		}
		return append(dst, bytesToValues(strconv.AppendUint(nil, args[1].(uint64), args[2].(int)))...)
	}
	I["strconv.FormatInt"] = func(fr *frame, args []value) value {
		if s, ok := args[0].(sym); ok {
			return mkStr(fr.i.p.intToken(s, true, fr))
		}
		return strconv.FormatInt(args[0].(int64), args[1].(int))
	}
	I["strconv.FormatUint"] = func(fr *frame, args []value) value {
		if s, ok := args[0].(sym); ok {
			return mkStr(fr.i.p.intToken(s, false, fr))
		}
		return strconv.FormatUint(args[0].(uint64), args[1].(int))
	}
	I["strconv.Itoa"] = func(fr *frame, args []value) value {
		if s, ok := args[0].(sym); ok {
			return mkStr(fr.i.p.intToken(s, true, fr))
		}
		return strconv.Itoa(args[0].(int))
	}
	I["strconv.AppendFloat"] = func(fr *frame, args []value) value {
		dst := args[0].([]value)
		bits := args[4].(int)
		if s, ok := args[1].(sym); ok {
			f := s
			if bits == 32 {
				// the argument is float64(float32 value): recover the 32-bit pattern
				if s.t.op == OpFCvt && s.t.a.w == 32 {
					f = sym{s.t.a, types.Float32}
				}
			}
			return append(dst, fr.i.p.floatToken(f, bits, fr, args[2].(byte))...)
		}
		return append(dst, bytesToValues(strconv.AppendFloat(nil, args[1].(float64), args[2].(byte), args[3].(int), bits))...)
	}
	I["strconv.FormatFloat"] = func(fr *frame, args []value) value {
		bits := args[3].(int)
		if s, ok := args[0].(sym); ok {
			return mkStr(fr.i.p.floatToken(s, bits, fr, args[1].(byte)))
		}
		return strconv.FormatFloat(args[0].(float64), args[1].(byte), args[2].(int), bits)
	}
	I["strconv.AppendBool"] = func(fr *frame, args []value) value {
		dst := args[0].([]value)
		if fr.cond(args[1]) {
			return append(dst, bytesToValues([]byte("true"))...)
		}
		return append(dst, bytesToValues([]byte("false"))...)
	}
	I["strconv.Quote"] = func(fr *frame, args []value) value {
		return strconv.Quote(argStr(fr, args[0]))
	}
	I["strconv.AppendQuote"] = func(fr *frame, args []value) value {
		return append(args[0].([]value), bytesToValues([]byte(strconv.Quote(argStr(fr, args[1]))))...)
	}
	I["strconv.Atoi"] = func(fr *frame, args []value) value {
		n, err := strconv.Atoi(argStr(fr, args[0]))
		return tuple{n, wrapNativeError(fr, err)}
	}
	I["strconv.ParseInt"] = func(fr *frame, args []value) value {
		n, err := strconv.ParseInt(argStr(fr, args[0]), args[1].(int), args[2].(int))
		return tuple{n, wrapNativeError(fr, err)}
	}
	I["strconv.ParseBool"] = func(fr *frame, args []value) value {
		n, err := strconv.ParseBool(argStr(fr, args[0]))
		return tuple{n, wrapNativeError(fr, err)}
	}

	// ---- base64
	I["(*encoding/base64.Encoding).EncodeToString"] = func(fr *frame, args []value) value {
		src := args[1].([]value)
		conc := true
		for _, e := range src {
			if _, ok := e.(uint8); !ok {
				conc = false
			}
		}
		if conc {
			b := make([]byte, len(src))
			for i, e := range src {
				b[i] = e.(uint8)
			}
			return base64.StdEncoding.EncodeToString(b)
		}
		// symbolic payload: token bytes over the base64 alphabet, padded length 4*ceil(n/3)
		p := fr.i.p
		ck := "b64"
		for _, e := range src {
			t, _ := termOf(e)
			ck += fmt.Sprintf(":%d", t.id)
		}
		if cached, ok := p.tokCache[ck]; ok {
			return mkStr(append([]value{}, cached...)) // the same bytes always encode to the same text
		}
		tk := p.newToken("b64", nil, len(src))
		srcCopy := append([]value{}, src...)
		tk.render = func(ev *evaluator) string {
			b := make([]byte, len(srcCopy))
			for i, e := range srcCopy {
				t, _ := termOf(e)
				b[i] = byte(ev.eval(t))
			}
			return base64.StdEncoding.EncodeToString(b)
		}
		n := (len(src) + 2) / 3 * 4
		out := make([]value, n)
		for i := range out {
			out[i] = p.tokByte(tk, [2]byte{'A', 'Z'}, [2]byte{'a', 'z'}, [2]byte{'0', '9'}, [2]byte{'+', '+'}, [2]byte{'/', '/'}, [2]byte{'=', '='})
		}
		p.tokCache[ck] = append([]value{}, out...)
		return mkStr(out)
	}

	// ---- time formatting
	I["(time.Time).AppendFormat"] = func(fr *frame, args []value) value {
		dst := args[1].([]value)
		return append(dst, strBytes(timeFormat(fr, args[0], args[2]))...)
	}
	I["(time.Time).Format"] = func(fr *frame, args []value) value { return timeFormat(fr, args[0], args[1]) }
	I["(time.Duration).String"] = func(fr *frame, args []value) value {
		if s, ok := args[0].(sym); ok {
			p := fr.i.p
			ck := fmt.Sprintf("dur:%d", s.t.id)
			if cached, ok := p.tokCache[ck]; ok {
				return mkStr(append([]value{}, cached...))
			}
			tk := p.newToken("dur", s.t, 64)
			tk.render = func(ev *evaluator) string {
				return strings.TrimPrefix(time.Duration(int64(ev.eval(s.t))).String(), "-")
			}
			// e.g. "1.5s", "0s", "-2h3m": digits, units, sign, dot
			out := []value{}
			if fr.cond(valueOf(mkCmp(OpSlt, s.t, mkConst(64, 0)), types.Bool)) {
				out = append(out, byte('-'))
			}
			out = append(out, p.tokByte(tk, digit), p.tokByte(tk, [2]byte{'a', 'z'}, [2]byte{'.', '.'}, digit), p.tokByte(tk, [2]byte{'s', 's'}))
			p.tokCache[ck] = append([]value{}, out...)
			return mkStr(out)
		}
		return time.Duration(args[0].(int64)).String()
	}

	// ---- fmt
	I["fmt.Sprintf"] = func(fr *frame, args []value) value {
		return fmtCall(fr, "Sprintf", args[0], args[1].([]value))
	}
	I["fmt.Sprint"] = func(fr *frame, args []value) value { return fmtCall(fr, "Sprint", nil, args[0].([]value)) }
	I["fmt.Sprintln"] = func(fr *frame, args []value) value { return fmtCall(fr, "Sprintln", nil, args[0].([]value)) }
	I["fmt.Errorf"] = func(fr *frame, args []value) value {
		msg := fmtCall(fr, "Sprintf", args[0], args[1].([]value))
		return makeError(fr, msg)
	}
	I["fmt.Fprintf"] = func(fr *frame, args []value) value {
		msg := fmtCall(fr, "Sprintf", args[1], args[2].([]value))
		return writeTo(fr, args[0], msg)
	}
	I["fmt.Fprint"] = func(fr *frame, args []value) value {
		return writeTo(fr, args[0], fmtCall(fr, "Sprint", nil, args[1].([]value)))
	}
	I["fmt.Fprintln"] = func(fr *frame, args []value) value {
		return writeTo(fr, args[0], fmtCall(fr, "Sprintln", nil, args[1].([]value)))
	}
	I["fmt.Append"] = func(fr *frame, args []value) value {
		return append(args[0].([]value), strBytes(fmtCall(fr, "Sprint", nil, args[1].([]value)))...)
	}
	I["fmt.Appendf"] = func(fr *frame, args []value) value {
		return append(args[0].([]value), strBytes(fmtCall(fr, "Sprintf", args[1], args[2].([]value)))...)
	}
	I["fmt.Appendln"] = func(fr *frame, args []value) value {
		return append(args[0].([]value), strBytes(fmtCall(fr, "Sprintln", nil, args[1].([]value)))...)
	}
	I["fmt.Println"] = func(fr *frame, args []value) value { return tuple{0, iface{}} }
	I["fmt.Printf"] = func(fr *frame, args []value) value { return tuple{0, iface{}} }
}

// makeError builds an *errors.errorString (the real type) carrying msg.
func makeError(fr *frame, msg value) value {
	fn := fr.i.prog.ImportedPackage("errors").Func("New")
	return call(fr.i, fr, token.NoPos, fn, []value{msg})
}

func wrapNativeError(fr *frame, err error) value {
	if err == nil {
		return iface{}
	}
	return makeError(fr, err.Error())
}

// writeTo calls w.Write(msg) on an interpreted io.Writer.
func writeTo(fr *frame, w value, msg value) value {
	iw := w.(iface)
	if iw.t == nil {
		panic(runtimeError("invalid memory address or nil pointer dereference"))
	}
	m := findMethod(fr, iw.t, "Write")
	if m == nil {
		panic(engineError{"fmt.Fprint: writer without Write"})
	}
	b := append([]value{}, strBytes(msg)...)
	return call(fr.i, fr, token.NoPos, m, []value{iw.v, b})
}

// ---- time.Format contract

func timeFormat(fr *frame, t value, layout value) value {
	st := t.(structure)
	symbolic := containsSym(st[0]) || containsSym(st[1])
	if ls, ok := layout.(symstr); ok {
		// Layout with symbolic bytes: only layouts made of bytes that cannot start a reference-time
		// element are in the contract (echoed verbatim); anything else is assumed away.
		p := fr.i.p
		for _, e := range ls {
			if se, ok := e.(sym); ok {
				p.assume(layoutLiteralSafe(se.t))
			} else if !literalSafeByte(e.(uint8)) {
				panic(pathEnd{"assume"})
			}
		}
		return ls
	}
	l := layout.(string)
	// The zone verb "MST" echoes the location's zone abbreviation verbatim when it is non-empty (documented:
	// a FixedZone's name). That name is caller-controlled data, so it is kept byte for byte (possibly symbolic).
	if idx := strings.Index(l, "MST"); idx >= 0 {
		if zn, symName, ok := zoneAbbrev(st); ok && (symbolic || symName) {
			var out []value
			if idx > 0 {
				out = append(out, strBytes(timeFormat(fr, t, l[:idx]))...)
			}
			out = append(out, zn...)
			if idx+3 < len(l) {
				out = append(out, strBytes(timeFormat(fr, t, l[idx+3:]))...)
			}
			return mkStr(out)
		}
	}
	if !symbolic {
		return nativeTime(fr, st).Format(l)
	}
	allSafe := true
	for i := 0; i < len(l); i++ {
		if !literalSafeByte(l[i]) {
			allSafe = false
		}
	}
	if allSafe {
		return l
	}
	// symbolic instant, real layout: bytes from the documented alphabet, non-empty; length follows the
	// layout length (a representative: formatting never looks at the length)
	p := fr.i.p
	wall, _ := termOf(st[0])
	ext, _ := termOf(st[1])
	ck := fmt.Sprintf("time:%d:%d:%p:%s", wall.id, ext.id, st[2], l)
	if cached, ok := p.tokCache[ck]; ok {
		return mkStr(append([]value{}, cached...)) // the same instant and layout always format to the same text
	}
	tk := p.newToken("time", wall, 64)
	stCopy := append(structure{}, st...)
	tk.render = func(ev *evaluator) string {
		c := make(structure, len(stCopy))
		for i, e := range stCopy {
			if se, ok := e.(sym); ok {
				c[i] = valueOf(mkConst(int(se.t.w), ev.eval(se.t)), se.k)
			} else {
				c[i] = e
			}
		}
		return nativeTime(fr, c).Format(l)
	}
	n := len(l)
	if n > 6 {
		n = 6
	}
	out := make([]value, n)
	for i := range out {
		out[i] = p.tokByte(tk, digit, [2]byte{'A', 'Z'}, [2]byte{'a', 'z'}, [2]byte{':', ':'}, [2]byte{'+', '+'}, [2]byte{'-', '.'}, [2]byte{' ', ' '})
	}
	p.tokCache[ck] = append([]value{}, out...)
	return mkStr(out)
}

// zoneAbbrev returns the abbreviation a fixed-zone location prints for the MST verb.
func zoneAbbrev(st structure) (name []value, symbolic bool, ok bool) {
	loc, _ := st[2].(*value)
	if loc == nil {
		return nil, false, false
	}
	ls, _ := (*loc).(structure)
	if len(ls) < 2 {
		return nil, false, false
	}
	zones, _ := ls[1].([]value)
	if len(zones) != 1 {
		return nil, false, false
	}
	z := zones[0].(structure)
	switch n := z[0].(type) {
	case string:
		if n == "" {
			return nil, false, false
		}
		return strBytes(n), false, true
	case symstr:
		if len(n) == 0 {
			return nil, false, false
		}
		return strBytes(n), true, true
	}
	return nil, false, false
}

func literalSafeByte(c byte) bool {
	switch c {
	case 'J', 'M', '_', 'P', 'p', '-', 'Z', '.', ',', 'S', 'T', 'A', 'D', 'F', 'N', 'O', 'W':
		return false
	}
	return !(c >= '0' && c <= '9') && c < 0x80
}

func layoutLiteralSafe(b *Term) *Term {
	c := mkCmp(OpUlt, b, mkConst(8, 0x80))
	for x := 0; x < 0x80; x++ {
		if !literalSafeByte(byte(x)) {
			c = mkAnd(c, mkNot(mkEq(b, mkConst(8, uint64(x)))))
		}
	}
	return c
}

// nativeTime converts a boxed concrete time.Time into a host time.Time.
func nativeTime(fr *frame, st structure) time.Time {
	wall := st[0].(uint64)
	ext := st[1].(int64)
	var sec int64
	var nsec int32
	const hasMonotonic = 1 << 63
	const nsecMask = 1<<30 - 1
	const wallToInternal int64 = (1884*365 + 1884/4 - 1884/100 + 1884/400) * 86400
	const unixToInternal int64 = (1969*365 + 1969/4 - 1969/100 + 1969/400) * 86400
	nsec = int32(wall & nsecMask)
	if wall&hasMonotonic != 0 {
		sec = wallToInternal + int64(wall<<1>>31)
	} else {
		sec = ext
	}
	tt := time.Unix(sec-unixToInternal, int64(nsec))
	loc := st[2].(*value)
	if loc == nil {
		return tt.UTC()
	}
	ls := (*loc).(structure)
	name, isStr := ls[0].(string)
	if !isStr {
		name = "ZONE" // symbolic name: only the offset matters to the caller (the name is spliced in separately)
	}
	switch {
	case isStr && (name == "UTC" || name == ""):
		return tt.UTC()
	case isStr && name == "Local":
		return tt.UTC() // the modelled Local zone is UTC
	}
	// fixed zone: first zone entry's offset
	if zones, ok := ls[1].([]value); ok && len(zones) > 0 {
		z := zones[0].(structure)
		return tt.In(time.FixedZone(name, z[1].(int)))
	}
	return tt.UTC()
}

// ---- fmt

// nativeScalarMethod stands for a value of a named scalar type with an Error or String method (zapcore.Level,
// time.Duration, ...): fmt uses the method for the string verbs only, and the plain value for %d, %x, %g ...
type nativeScalarMethod struct {
	f     func() string
	plain interface{}
}

func (n nativeScalarMethod) Format(st fmt.State, verb rune) {
	switch verb {
	case 's', 'v', 'q':
		fmt.Fprintf(st, fmt.FormatString(st, verb), nativeStringer{n.f})
	default:
		fmt.Fprintf(st, fmt.FormatString(st, verb), n.plain)
	}
}

type nativeStringer struct{ f func() string }

func (n nativeStringer) String() string { return n.f() }

type nativeErr struct{ f func() string }

func (n nativeErr) Error() string { return n.f() }

type nativeBoth struct{ e, s func() string }

func (n nativeBoth) Error() string  { return n.e() }
func (n nativeBoth) String() string { return n.s() }

type nativeFormatter struct {
	f func(verb rune, plus bool) string
}

func (n nativeFormatter) Format(s fmt.State, verb rune) {
	fmt.Fprint(s, n.f(verb, s.Flag('+')))
}

type fmtCtx struct {
	fr     *frame
	holes  map[string][]value // placeholder -> symbolic bytes
	abort  interface{}
	n      int
}

func (c *fmtCtx) hole(b []value) string {
	c.n++
	ph := fmt.Sprintf("\x01SYM%d\x02", c.n)
	c.holes[ph] = b
	return ph
}

func (c *fmtCtx) str(v value) string {
	switch s := v.(type) {
	case string:
		return s
	case symstr:
		return c.hole(s)
	}
	return toString(v)
}

// callMethod invokes a niladic string method of an interpreted value, mapping panics the way
// package fmt would observe them.
func (c *fmtCtx) callMethod(recvT types.Type, recv value, name string, extra ...value) string {
	fr := c.fr
	m := findMethod(fr, recvT, name)
	if m == nil {
		return "?"
	}
	var out string
	func() {
		defer func() {
			if r := recover(); r != nil {
				switch r.(type) {
				case pathEnd, engineError, exitPanic, goexitPanic:
					c.abort = r
					out = ""
				default:
					panic(r) // let fmt's own recovery render it
				}
			}
		}()
		res := call(fr.i, fr, token.NoPos, m, append([]value{recv}, extra...))
		out = c.str(res)
	}()
	return out
}

func hasMethod(fr *frame, t types.Type, name string) bool {
	return findMethod(fr, t, name) != nil
}

// findMethod returns the exported method name of t, or nil.
func findMethod(fr *frame, t types.Type, name string) *ssa.Function {
	if t == nil {
		return nil
	}
	sel := fr.i.prog.MethodSets.MethodSet(t).Lookup(nil, name)
	if sel == nil {
		return nil
	}
	return fr.i.prog.MethodValue(sel)
}

func (c *fmtCtx) native(v value) interface{} {
	fr := c.fr
	switch x := v.(type) {
	case iface:
		if x.t == nil {
			return nil
		}
		isNilPtr := false
		if p, ok := x.v.(*value); ok && p == nil {
			isNilPtr = true
		}
		hasF := hasMethod(fr, x.t, "Format")
		hasE := hasMethod(fr, x.t, "Error")
		hasS := hasMethod(fr, x.t, "String")
		if isNilPtr && (hasE || hasS) {
			// fmt prints <nil> for nil pointer receivers whose method panics; call it to find out
			t, v := x.t, x.v
			if hasE {
				return nativeNilSafe{func() string { return c.callMethod(t, v, "Error") }}
			}
			return nativeNilSafe{func() string { return c.callMethod(t, v, "String") }}
		}
		t, rv := x.t, x.v
		if !hasF && (hasE || hasS) {
			switch rv.(type) {
			case bool, int, int8, int16, int32, int64, uint, uint8, uint16, uint32, uint64, uintptr, float32, float64, sym:
				m := "String"
				if hasE {
					m = "Error"
				}
				return nativeScalarMethod{func() string { return c.callMethod(t, rv, m) }, c.nativePlain(rv, nil)}
			}
		}
		switch {
		case hasF:
			return nativeFormatter{func(verb rune, plus bool) string {
				return c.formatVia(t, rv, verb, plus)
			}}
		case hasE && hasS:
			return nativeBoth{func() string { return c.callMethod(t, rv, "Error") }, func() string { return c.callMethod(t, rv, "String") }}
		case hasE:
			return nativeErr{func() string { return c.callMethod(t, rv, "Error") }}
		case hasS:
			return nativeStringer{func() string { return c.callMethod(t, rv, "String") }}
		}
		return c.nativePlain(x.v, x.t)
	}
	return c.nativePlain(v, nil)
}

type nativeNilSafe struct{ f func() string }

func (n nativeNilSafe) String() string {
	// mimic fmt: a panic from a nil receiver prints "<nil>"
	var out string
	func() {
		defer func() {
			if r := recover(); r != nil {
				out = "<nil>"
			}
		}()
		out = n.f()
	}()
	return out
}

// formatVia runs an interpreted fmt.Formatter with a small fmt.State model that collects output.
func (c *fmtCtx) formatVia(t types.Type, recv value, verb rune, plus bool) string {
	fr := c.fr
	m := findMethod(fr, t, "Format")
	st := &stateModel{plus: plus}
	fr.i.p.extra["fmtstate"] = st
	// fmt.State is an interface; we pass an iface whose dynamic type is a marker handled by intrinsics.
	stateT := fr.i.prog.ImportedPackage("fmt").Type("pp").Type()
	func() {
		defer func() {
			if r := recover(); r != nil {
				switch r.(type) {
				case pathEnd, engineError, exitPanic, goexitPanic:
					c.abort = r
				default:
					panic(r)
				}
			}
		}()
		call(fr.i, fr, token.NoPos, m, []value{recv, iface{t: types.NewPointer(stateT), v: &stateCell}, int32(verb)})
	}()
	var sb strings.Builder
	for _, part := range st.out {
		sb.WriteString(c.str(part))
	}
	return sb.String()
}

var stateCell value = structure{}

type stateModel struct {
	plus bool
	out  []value
}

func init() {
	I := intrinsics
	I["(*fmt.pp).Write"] = func(fr *frame, args []value) value {
		st := fr.i.p.extra["fmtstate"].(*stateModel)
		b := args[1].([]value)
		st.out = append(st.out, mkStr(b))
		return tuple{len(b), iface{}}
	}
	I["(*fmt.pp).Flag"] = func(fr *frame, args []value) value {
		st := fr.i.p.extra["fmtstate"].(*stateModel)
		return st.plus && args[1].(int) == '+'
	}
	I["(*fmt.pp).Width"] = func(fr *frame, args []value) value { return tuple{0, false} }
	I["(*fmt.pp).Precision"] = func(fr *frame, args []value) value { return tuple{0, false} }
	I["io.WriteString"] = func(fr *frame, args []value) value {
		return writeTo(fr, args[0], args[1])
	}
}

func (c *fmtCtx) nativePlain(v value, t types.Type) interface{} {
	switch x := v.(type) {
	case bool, int, int8, int16, int32, int64, uint, uint8, uint16, uint32, uint64, uintptr, float32, float64, complex64, complex128:
		if t != nil {
			// named basic types (e.g. time.Duration handled by method lookup above); plain value otherwise
		}
		return x
	case string:
		return x
	case symstr:
		return c.hole(x)
	case sym:
		// symbolic scalar: rendered through a token
		p := c.fr.i.p
		if isFloatKind(x.k) {
			w, _ := kindInfo(x.k)
			return c.hole(p.floatToken(x, w, c.fr, 'g'))
		}
		if x.k == types.Bool {
			if c.fr.cond(x) {
				return true
			}
			return false
		}
		_, signed := kindInfo(x.k)
		return c.hole(p.intToken(x, signed, c.fr))
	case []value:
		allBytes := len(x) > 0
		for _, e := range x {
			if _, ok := e.(uint8); !ok {
				allBytes = false
			}
		}
		if allBytes {
			b := make([]byte, len(x))
			for i, e := range x {
				b[i] = e.(uint8)
			}
			return b
		}
		out := make([]interface{}, len(x))
		for i, e := range x {
			out[i] = c.native(e)
		}
		return out
	case *value:
		if x == nil {
			return nil
		}
		return fmt.Sprintf("0x%x", 0xc000000000)
	case structure:
		parts := make([]interface{}, len(x))
		for i, e := range x {
			parts[i] = c.native(e)
		}
		return fmtStruct(parts)
	case iface:
		return c.native(x)
	case nil:
		return nil
	}
	return toString(v)
}

type fmtStruct []interface{}

func (s fmtStruct) String() string {
	var sb strings.Builder
	sb.WriteString("{")
	for i, e := range s {
		if i > 0 {
			sb.WriteString(" ")
		}
		fmt.Fprint(&sb, e)
	}
	sb.WriteString("}")
	return sb.String()
}

func fmtCall(fr *frame, kind string, format value, args []value) value {
	c := &fmtCtx{fr: fr, holes: map[string][]value{}}
	nat := make([]interface{}, len(args))
	for i, a := range args {
		nat[i] = c.native(a)
	}
	var out string
	switch kind {
	case "Sprintf":
		f := c.str(format)
		out = fmt.Sprintf(f, nat...)
	case "Sprint":
		out = fmt.Sprint(nat...)
	case "Sprintln":
		out = fmt.Sprintln(nat...)
	}
	if c.abort != nil {
		panic(c.abort)
	}
	if len(c.holes) == 0 {
		return out
	}
	// substitute placeholders by their symbolic bytes
	var res []value
	for len(out) > 0 {
		i := strings.IndexByte(out, 0x01)
		if i < 0 {
			res = append(res, bytesToValues([]byte(out))...)
			break
		}
		res = append(res, bytesToValues([]byte(out[:i]))...)
		j := strings.IndexByte(out[i:], 0x02)
		if j < 0 {
			panic(engineError{"fmt stub: damaged placeholder (unsupported verb on a symbolic value)"})
		}
		ph := out[i : i+j+1]
		b, ok := c.holes[ph]
		if !ok {
			panic(engineError{"fmt stub: unknown placeholder (unsupported verb on a symbolic value)"})
		}
		res = append(res, b...)
		out = out[i+j+1:]
	}
	return mkStr(res)
}

// fpSignTerm is the condition "the sign bit of t is set", pushed through sign-preserving operations.
func fpSignTerm(t *Term) *Term {
	switch t.op {
	case OpFFromS:
		return mkCmp(OpSlt, t.a, mkConst(int(t.a.w), 0))
	case OpFFromU:
		return tFalse
	case OpFCvt:
		if fpFinite(t.a) {
			return fpSignTerm(t.a)
		}
	case OpFDiv:
		if t.b.op == OpConst && fpFinite(t.a) {
			c := fbits2f(t.b.val, int(t.b.w))
			if c > 0 && !math.IsInf(c, 0) {
				return fpSignTerm(t.a)
			}
		}
	}
	w := int(t.w)
	return mkEq(mkExtract(t, w-1, w-1), mkConst(1, 1))
}
