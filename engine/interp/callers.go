package interp

// Model of runtime.Callers / CallersFrames / Caller on the interpreter's own call stack.
//
// One logical frame per source-level call: compiler-generated wrappers (bound-method closures, thunks,
// promoted-method wrappers) are elided, as the real runtime elides wrapper frames, and inlining does not
// exist at this level (CallersFrames expands inlined frames in the real runtime, giving the same list).
// The outermost frame is followed by one pseudo frame "runtime.goexit", as on every real goroutine.
// A program counter is an opaque id standing for (function, call position).

import (
	"fmt"
	"go/token"
	"go/types"
	"strings"

	"golang.org/x/tools/go/ssa"
)

type pcInfo struct {
	fn       string
	file     string
	line     int
	entry    bool
}

type callersModel struct {
	pcs    []pcInfo
	index  map[pcInfo]int
	frames map[*value]*framesIter
	funcs  map[*value]string
}

type framesIter struct {
	pcs []uint64
	pos int
}

const pcBase = 0x400000

func (p *Path) callers() *callersModel {
	m, _ := p.extra["callers"].(*callersModel)
	if m == nil {
		m = &callersModel{index: map[pcInfo]int{}, frames: map[*value]*framesIter{}}
		p.extra["callers"] = m
	}
	return m
}

func (m *callersModel) pcOf(info pcInfo) uint64 {
	if i, ok := m.index[info]; ok {
		return uint64(pcBase + i*16)
	}
	m.index[info] = len(m.pcs)
	m.pcs = append(m.pcs, info)
	return uint64(pcBase + (len(m.pcs)-1)*16)
}

func (m *callersModel) info(pc uint64) (pcInfo, bool) {
	if pc < pcBase || (pc-pcBase)%16 != 0 {
		return pcInfo{}, false
	}
	i := int((pc - pcBase) / 16)
	if i >= len(m.pcs) {
		return pcInfo{}, false
	}
	return m.pcs[i], true
}

// runtimeFuncName renders an ssa.Function the way the runtime names it.
func runtimeFuncName(fn *ssa.Function) string {
	if fn.Parent() != nil {
		// anonymous function: parent.funcN
		p := fn.Parent()
		n := 1
		for i, a := range p.AnonFuncs {
			if a == fn {
				n = i + 1
			}
		}
		return fmt.Sprintf("%s.func%d", runtimeFuncName(p), n)
	}
	pkg := ""
	if fn.Pkg != nil {
		pkg = fn.Pkg.Pkg.Path()
	} else if o := fn.Origin(); o != nil && o.Pkg != nil {
		pkg = o.Pkg.Pkg.Path()
	}
	name := fn.Name()
	if i := strings.IndexByte(name, '['); i >= 0 {
		name = name[:i] + "[...]"
	}
	if recv := fn.Signature.Recv(); recv != nil {
		t := recv.Type()
		ptr := false
		if pt, ok := t.(*types.Pointer); ok {
			t, ptr = pt.Elem(), true
		}
		tn := "?"
		if named, ok := t.(*types.Named); ok {
			tn = named.Obj().Name()
			if named.Obj().Pkg() != nil {
				pkg = named.Obj().Pkg().Path()
			}
			if named.TypeArgs().Len() > 0 {
				tn += "[...]"
			}
		}
		if ptr {
			return pkg + ".(*" + tn + ")." + name
		}
		return pkg + "." + tn + "." + name
	}
	return pkg + "." + name
}

func elidedFrame(fn *ssa.Function) bool {
	return fn.Synthetic != "" && !strings.HasPrefix(fn.Synthetic, "instance of") && !strings.HasPrefix(fn.Synthetic, "package initializer")
}

// Frames unwound by a panic in flight. While a panic unwinds, the real runtime still has the frames of the
// panicking call chain on the stack: a deferred function that runs during the unwinding sees
//   itself, runtime.gopanic, the panicking function, its callers ..., the deferring function, ...
// The interpreter has popped those frames by then, so each frame the panic leaves is noted here (per
// goroutine), and logicalStack splices them back in below the frame whose deferred call is running.
type unwindState struct {
	stack     [][]pcInfo // one list per panic in flight (panics nest: a deferred call may panic and recover); innermost frame first
	continued bool       // the newest panic is being re-raised into the caller's frame
}

func unwindOf(fr *frame) *unwindState {
	p := fr.i.p
	if p == nil {
		return nil
	}
	gid := 0
	if p.sched != nil && p.sched.cur != nil {
		gid = p.sched.cur.id
	}
	key := fmt.Sprintf("unwind:%d", gid)
	u, _ := p.extra[key].(*unwindState)
	if u == nil {
		u = &unwindState{}
		p.extra[key] = u
	}
	return u
}

// startUnwind: a panic reached fr's handler, either fresh (raised by an instruction of fr or by an
// intrinsic it called) or continued from a callee frame.
func startUnwind(fr *frame) {
	u := unwindOf(fr)
	if u == nil {
		return
	}
	if !u.continued {
		u.stack = append(u.stack, nil)
	}
	u.continued = false
}

// noteUnwound: the panic leaves fr (its deferred calls have run and none recovered).
func noteUnwound(fr *frame) {
	u := unwindOf(fr)
	if u == nil || len(u.stack) == 0 {
		return
	}
	if !elidedFrame(fr.fn) {
		pos := token.NoPos
		if fr.cur != nil {
			pos = fr.cur.Pos()
		}
		pp := fr.i.prog.Fset.Position(pos)
		top := len(u.stack) - 1
		u.stack[top] = append(u.stack[top], pcInfo{fn: runtimeFuncName(fr.fn), file: pp.Filename, line: pp.Line})
	}
	u.continued = true
}

// clearUnwound: the newest panic was recovered in fr.
func clearUnwound(fr *frame) {
	if u := unwindOf(fr); u != nil && len(u.stack) > 0 {
		u.stack = u.stack[:len(u.stack)-1]
		u.continued = false
	}
}

func (u *unwindState) frames() []pcInfo {
	if len(u.stack) == 0 {
		return nil
	}
	return u.stack[len(u.stack)-1]
}

// logicalStack lists the frames seen by runtime.Callers called from fr: index 0 is runtime.Callers itself.
func logicalStack(fr *frame, self string) []pcInfo {
	// fr is the frame of the runtime function itself (external functions get their own frame)
	fset := fr.i.prog.Fset
	var out []pcInfo
	pos := token.NoPos
	for f := fr; f != nil; f = f.caller {
		if f.inDefer && f.unwinding {
			// f's deferred call runs because a panic is unwinding through f
			out = append(out, pcInfo{fn: "runtime.gopanic", file: "/usr/lib/go/src/runtime/panic.go", line: 1})
			if u := unwindOf(f); u != nil {
				out = append(out, u.frames()...)
			}
			if f.cur != nil {
				pos = f.cur.Pos()
			}
		}
		if !elidedFrame(f.fn) {
			p := fset.Position(pos)
			out = append(out, pcInfo{fn: runtimeFuncName(f.fn), file: p.Filename, line: p.Line})
		}
		pos = f.callpos
	}
	out = append(out, pcInfo{fn: "runtime.goexit", file: "/usr/lib/go/src/runtime/asm.s", line: 1})
	return out
}

func makeRuntimeFrame(fr *frame, info pcInfo, pc uint64, valid bool) value {
	ft := fr.i.prog.ImportedPackage("runtime").Type("Frame").Type().Underlying().(*types.Struct)
	st := zero(ft).(structure)
	if !valid {
		return st
	}
	for i := 0; i < ft.NumFields(); i++ {
		switch ft.Field(i).Name() {
		case "PC":
			st[i] = uintptr(pc)
		case "Function":
			st[i] = info.fn
		case "File":
			st[i] = info.file
		case "Line":
			st[i] = info.line
		case "Entry":
			st[i] = uintptr(pc &^ 0xf)
		}
	}
	return st
}

func init() {
	I := intrinsics
	I["runtime.Callers"] = func(fr *frame, args []value) value {
		skip := int(fr.conc(args[0]))
		pcs := args[1].([]value)
		m := fr.i.p.callers()
		st := logicalStack(fr, "runtime.Callers")
		n := 0
		for i := skip; i < len(st) && n < len(pcs); i++ {
			pcs[n] = uintptr(m.pcOf(st[i]))
			n++
		}
		return n
	}
	I["runtime.Caller"] = func(fr *frame, args []value) value {
		skip := int(fr.conc(args[0]))
		m := fr.i.p.callers()
		st := logicalStack(fr, "runtime.Caller")
		i := skip + 1
		if i >= len(st) {
			return tuple{uintptr(0), "", 0, false}
		}
		return tuple{uintptr(m.pcOf(st[i])), st[i].file, st[i].line, true}
	}
	I["runtime.CallersFrames"] = func(fr *frame, args []value) value {
		pcs := args[0].([]value)
		it := &framesIter{}
		for _, pc := range pcs {
			it.pcs = append(it.pcs, uint64(pc.(uintptr)))
		}
		cell := new(value)
		*cell = zero(fr.i.prog.ImportedPackage("runtime").Type("Frames").Type().Underlying())
		fr.i.p.callers().frames[cell] = it
		return cell
	}
	I["(*runtime.Frames).Next"] = func(fr *frame, args []value) value {
		m := fr.i.p.callers()
		ptr, _ := args[0].(*value)
		it := m.frames[ptr]
		if it == nil {
			if ptr == nil {
				panic(runtimeError("invalid memory address or nil pointer dereference"))
			}
			panic(engineError{"(*runtime.Frames).Next on an unknown Frames value"})
		}
		if it.pos >= len(it.pcs) {
			return tuple{makeRuntimeFrame(fr, pcInfo{}, 0, false), false}
		}
		pc := it.pcs[it.pos]
		it.pos++
		info, ok := m.info(pc)
		return tuple{makeRuntimeFrame(fr, info, pc, ok), it.pos < len(it.pcs)}
	}
	I["runtime.FuncForPC"] = func(fr *frame, args []value) value {
		m := fr.i.p.callers()
		info, ok := m.info(uint64(args[0].(uintptr)))
		if !ok {
			return (*value)(nil)
		}
		cell := new(value)
		*cell = zero(fr.i.prog.ImportedPackage("runtime").Type("Func").Type().Underlying())
		if m.funcs == nil {
			m.funcs = map[*value]string{}
		}
		m.funcs[cell] = info.fn
		return cell
	}
	I["(*runtime.Func).Name"] = func(fr *frame, args []value) value {
		ptr, _ := args[0].(*value)
		if ptr == nil {
			return ""
		}
		return fr.i.p.callers().funcs[ptr]
	}
}
