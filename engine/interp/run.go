package interp

// Runner: prepares an SSA program once, then explores harness functions over
// all decision trails with a pool of workers.

import (
	"fmt"
	"go/token"
	"go/types"
	"math"
	"os"
	"runtime"
	"runtime/debug"
	"sort"
	"strings"
	"sync"
	"sync/atomic"
	"time"
	"unsafe"

	"golang.org/x/tools/go/ssa"
)

// Program is the shared, read-only (after Prepare) view of the SSA program.
type Program struct {
	Prog               *ssa.Program
	sizes              types.Sizes
	reflectPackage     *ssa.Package
	errorMethods       methodSet
	rtypeMethods       methodSet
	runtimeErrorString types.Type
	initOrder          []*ssa.Package
	globals            []*ssa.Global
}

var prepareOnce sync.Once

// Prepare performs the one-time mutations of the program (fake reflect) and computes the init order.
func Prepare(prog *ssa.Program, roots []*ssa.Package) *Program {
	P := &Program{Prog: prog, sizes: &types.StdSizes{WordSize: 8, MaxAlign: 8}}
	i := &interpreter{prog: prog}
	runtimePkg := prog.ImportedPackage("runtime")
	if runtimePkg == nil {
		panic("ssa.Program doesn't include runtime package")
	}
	P.runtimeErrorString = runtimePkg.Type("errorString").Object().Type()
	initReflect(i)
	P.reflectPackage, P.errorMethods, P.rtypeMethods = i.reflectPackage, i.errorMethods, i.rtypeMethods
	for _, pkg := range prog.AllPackages() {
		for _, m := range pkg.Members {
			if g, ok := m.(*ssa.Global); ok {
				P.globals = append(P.globals, g)
			}
		}
	}
	sort.Slice(P.globals, func(a, b int) bool { return P.globals[a].Pos() < P.globals[b].Pos() })
	return P
}

// initAllowed: packages whose synthesized init function is executed. Everything else keeps zero globals.
func initAllowed(path string) bool {
	switch path {
	case "unicode/utf8", "strconv", "math", "encoding/base64", "bytes", "bufio", "io", "go.uber.org/multierr",
		"internal/itoa", "math/bits", "unicode", "strings", "sort", "sync/atomic", "internal/bytealg",
		"time", "unicode/utf16", "internal/stringslite", "slices", "cmp", "log/slog/internal", "context",
		"go.uber.org/atomic", "path/filepath", "path", "net/url", "log":
		return true
	}
	return strings.HasPrefix(path, "go.uber.org/zap")
}

// skipInitFuncs: user-written init functions or initialisers that must not run.
var noInitGlobals = map[string]bool{}

func (P *Program) newInterpreter(p *Path) *interpreter {
	i := &interpreter{
		prog:               P.Prog,
		globals:            make(map[*ssa.Global]*value, len(P.globals)),
		sizes:              P.sizes,
		goroutines:         1,
		reflectPackage:     P.reflectPackage,
		errorMethods:       P.errorMethods,
		rtypeMethods:       P.rtypeMethods,
		runtimeErrorString: P.runtimeErrorString,
		p:                  p,
	}
	for _, g := range P.globals {
		cell := zero(mustDeref(g.Type()))
		i.globals[g] = &cell
	}
	return i
}

// Explore runs all harnesses to completion (or until the deadline) and returns their results.
func (P *Program) Explore(harnesses []*HarnessRun, opts *Options) {
	if opts.Workers <= 0 {
		opts.Workers = runtime.NumCPU()
	}
	if opts.MaxSteps == 0 {
		opts.MaxSteps = 3_000_000
	}
	if opts.MaxPaths == 0 {
		opts.MaxPaths = 2_000_000
	}
	if opts.SampleEvery == 0 {
		opts.SampleEvery = 1
	}
	if opts.MaxSamples == 0 {
		opts.MaxSamples = 40
	}
	theQueue = newQueue()
	start := time.Now()
	for _, h := range harnesses {
		atomic.AddInt64(&h.pending, 1)
		theQueue.push(&Job{h: h})
	}
	// reverse so the first harness is popped first
	theQueue.mu.Lock()
	for a, b := 0, len(theQueue.jobs)-1; a < b; a, b = a+1, b-1 {
		theQueue.jobs[a], theQueue.jobs[b] = theQueue.jobs[b], theQueue.jobs[a]
	}
	theQueue.mu.Unlock()
	var wg sync.WaitGroup
	var total SolverStats
	var tmu sync.Mutex
	for w := 0; w < opts.Workers; w++ {
		wg.Add(1)
		go func(id int) {
			defer wg.Done()
			wk := &Worker{id: id, solver: NewSolver(opts.Solver)}
			defer wk.solver.Close()
			for {
				j := theQueue.pop()
				if j == nil {
					break
				}
				if !opts.Deadline.IsZero() && time.Now().After(opts.Deadline) {
					j.h.mu.Lock()
					if len(j.h.Inconclusive) == 0 || j.h.Inconclusive[len(j.h.Inconclusive)-1] != "deadline reached" {
						j.h.Inconclusive = append(j.h.Inconclusive, "deadline reached")
					}
					j.h.mu.Unlock()
				} else {
					P.runPath(wk, j, opts)
				}
				if atomic.AddInt64(&j.h.pending, -1) == 0 {
					j.h.Wall = time.Since(start)
				}
				theQueue.finish()
			}
			tmu.Lock()
			total.add(wk.solver.Stats)
			tmu.Unlock()
		}(w)
	}
	wg.Wait()
	TotalSolver = total
}

var TotalSolver SolverStats

func (P *Program) runPath(wk *Worker, j *Job, opts *Options) {
	h := j.h
	if atomic.LoadInt64(&h.Paths) >= opts.MaxPaths {
		h.mu.Lock()
		h.Unwinding++
		h.mu.Unlock()
		return
	}
	p := &Path{h: h, w: wk, opts: opts, trail: j.trail, pcset: map[int32]bool{}, vseen: map[int32]bool{},
		inames: map[string]bool{}, funcs: map[*ssa.Function]int64{}, tokens: map[int32]*Token{},
		pool: &poolModel{bags: map[*value][]value{}}, extra: map[string]interface{}{}, ranges: map[int32]*rng{}, tokCache: map[string][]value{}}
	m := Model{}
	for k, v := range j.model {
		m[k] = v
	}
	p.setModel(m)
	p.sched = newSched(p)
	if wk.base == nil || wk.baseProg != P {
		if err := P.buildBase(wk, opts); err != "" {
			h.mu.Lock()
			h.EngineErrors = append(h.EngineErrors, "package initialisation failed: "+err)
			h.mu.Unlock()
			return
		}
	}
	i := &interpreter{prog: P.Prog, globals: wk.base.fork(), baseGlobals: wk.base.globals, sizes: P.sizes, goroutines: 1,
		reflectPackage: P.reflectPackage, errorMethods: P.errorMethods, rtypeMethods: P.rtypeMethods,
		runtimeErrorString: P.runtimeErrorString, p: p}
	terminal := "return"
	func() {
		defer func() {
			r := recover()
			if p.sched != nil {
				p.sched.killAll()
			}
			switch r := r.(type) {
			case nil:
			case pathEnd:
				terminal = "end:" + r.reason
			case engineError:
				terminal = "engine-error"
				h.mu.Lock()
				if len(h.EngineErrors) < 10 {
					h.EngineErrors = append(h.EngineErrors, r.msg+" [trail "+p.trailString()+"]")
				}
				h.mu.Unlock()
			case exitPanic:
				terminal = fmt.Sprintf("exit(%d)", int(r))
				p.addViolation("panic", "uncaught-exit", fmt.Sprintf("os.Exit(%d) escaped the harness", int(r)), p.model)
			case goexitPanic:
				terminal = "goexit"
				p.addViolation("panic", "uncaught-goexit", "runtime.Goexit escaped the harness", p.model)
			case goroutinePanic:
				terminal = "panic"
				p.addViolation("panic", "uncaught-panic", "in goroutine: "+panicString(r.v), p.model)
			case targetPanic:
				terminal = "panic"
				p.addViolation("panic", "uncaught-panic", panicString(r), p.model)
			case runtimeError:
				terminal = "panic"
				p.addViolation("panic", "uncaught-panic", r.Error(), p.model)
			case runtime.Error:
				terminal = "panic"
				msg := r.Error()
				// host runtime errors raised while executing target code are target runtime panics, but a nil
				// map/slice misuse inside the engine looks the same; the native replay arbitrates.
				if opts.Trace {
					fmt.Fprintf(os.Stderr, "host runtime error: %s\n%s\n", msg, debug.Stack())
				}
				p.addViolation("panic", "uncaught-panic", msg+hostWhere(), p.model)
			case string:
				terminal = "panic"
				p.addViolation("panic", "uncaught-panic", r, p.model)
			default:
				terminal = "engine-error"
				h.mu.Lock()
				h.EngineErrors = append(h.EngineErrors, fmt.Sprintf("unexpected host panic %T: %v\n%s", r, r, debug.Stack()))
				h.mu.Unlock()
			}
		}()
		call(i, nil, token.NoPos, h.Fn, nil)
	}()
	// merge path results
	h.mu.Lock()
	defer h.mu.Unlock()
	if terminal == "end:killed" {
		return
	}
	h.Terminals[terminal]++
	switch terminal {
	case "end:assume":
		h.Assumed++
		// violations recorded before a failed assumption do not count: the path is outside the precondition
		p.viols = nil
	case "end:budget":
		h.Unwinding++
	}
	h.Paths++
	h.Decisions += p.decs
	if len(p.trail) > h.MaxTrail {
		h.MaxTrail = len(p.trail)
	}
	for f, n := range p.funcs {
		h.Funcs[f] += n
	}
	for _, c := range p.covers {
		h.Covers[c]++
	}
	for _, b := range p.bounds {
		found := false
		for _, x := range h.Bounds {
			if x == b {
				found = true
			}
		}
		if !found {
			h.Bounds = append(h.Bounds, b)
		}
	}
	for _, v := range p.viols {
		k := v.Key()
		if _, ok := h.Violations[k]; !ok {
			h.Violations[k] = v
		}
	}
	if terminal == "return" && len(p.viols) == 0 && len(p.obs) > 0 {
		h.sampleSeen++
		if len(h.Samples) < opts.MaxSamples && (h.sampleSeen-1)%opts.SampleEvery == 0 {
			h.Samples = append(h.Samples, p.sample())
		}
	}
}

func hostWhere() string {
	st := string(debug.Stack())
	lines := strings.Split(st, "\n")
	for i, l := range lines {
		if strings.Contains(l, "panic(") && i+3 < len(lines) {
			return " @" + strings.TrimSpace(lines[i+2]) + " " + strings.TrimSpace(lines[i+3])
		}
	}
	return ""
}

func panicString(r interface{}) string {
	switch r := r.(type) {
	case targetPanic:
		if e, ok := r.v.(iface); ok {
			if s, ok := e.v.(string); ok {
				return s
			}
			return toString(e.v)
		}
		return toString(r.v)
	case error:
		return r.Error()
	case string:
		return r
	}
	return fmt.Sprint(r)
}

// runInits executes the synthesized package initialisers of whitelisted packages in dependency order.
func (P *Program) runInits(i *interpreter) {
	i.initDone = map[*ssa.Package]bool{}
	// Calling pkg.init runs the inits of its imports first (each guarded by init$guard); initAllowed
	// gates which packages really run (see callSSA).
	for _, pkg := range P.initOrder {
		if f := pkg.Func("init"); f != nil {
			call(i, nil, token.NoPos, f, nil)
		}
	}
}

func (P *Program) SetRoots(pkgs []*ssa.Package) { P.initOrder = pkgs }

// sample renders a completed path for evidence and translator validation.
func (p *Path) sample() *PathSample {
	vals, kinds, order := p.snapshotInputs(p.model)
	s := &PathSample{Harness: p.h.Name, Inputs: vals, Kinds: kinds, Order: order, Tags: p.tags, Trail: p.trailString()}
	ev := newEvaluator(p.model)
	for _, o := range p.obs {
		s.Obs = append(s.Obs, o.Label+"="+renderObs(ev, o.val, p.tokens))
	}
	return s
}

// renderObs renders an observed value under a model in the same format as vrt.render natively.
func renderObs(ev *evaluator, v value, toks map[int32]*Token) string {
	conc := func(x value) value {
		if s, ok := x.(sym); ok {
			return valueOf(mkConst(int(s.t.w), ev.eval(s.t)), s.k)
		}
		return x
	}
	bytesOf := func(b []value) ([]byte, bool) {
		out := make([]byte, 0, len(b))
		var lastTok *Token
		for _, e := range b {
			if se, ok := e.(sym); ok && se.t.op == OpVar && toks != nil {
				if tk := toks[se.t.id]; tk != nil && tk.render != nil {
					if tk == lastTok {
						continue // further bytes of the same token: already rendered
					}
					if se.t.id == tk.first {
						out = append(out, tk.render(ev)...)
						lastTok = tk
						continue
					}
				}
			}
			lastTok = nil
			c, ok := conc(e).(uint8)
			if !ok {
				return nil, false
			}
			out = append(out, c)
		}
		return out, true
	}
	if it, ok := v.(iface); ok {
		if it.t == nil {
			return "<nil>"
		}
		v = it.v
	}
	switch x := v.(type) {
	case string:
		return fmt.Sprintf("%q", x)
	case symstr:
		if b, ok := bytesOf(x); ok {
			return fmt.Sprintf("%q", string(b))
		}
	case []value:
		if b, ok := bytesOf(x); ok && len(x) > 0 {
			return fmt.Sprintf("%q", string(b))
		}
		if len(x) == 0 {
			return `""`
		}
		// []string
		parts := make([]string, len(x))
		allStr := true
		for i, e := range x {
			switch s := e.(type) {
			case string:
				parts[i] = s
			case symstr:
				b, _ := bytesOf(s)
				parts[i] = string(b)
			default:
				allStr = false
			}
		}
		if allStr {
			return fmt.Sprintf("%q", parts)
		}
	case sym:
		return renderObs(ev, conc(x), toks)
	case float64:
		return fmt.Sprintf("f64:%016x", math.Float64bits(x))
	case float32:
		return fmt.Sprintf("f32:%08x", math.Float32bits(x))
	case bool, int, int8, int16, int32, int64, uint, uint8, uint16, uint32, uint64, uintptr:
		return fmt.Sprint(x)
	}
	return "?" + toString(v)
}

var _ = os.Stderr

// NewHarnessRun is the exported constructor used by the driver.
func NewHarnessRun(name string, fn *ssa.Function) *HarnessRun { return newHarnessRun(name, fn) }

// Add merges solver statistics.
func (s *SolverStats) Add(o SolverStats) { s.add(o) }

// buildBase runs the package initialisers once for this worker and classifies the resulting heap.
func (P *Program) buildBase(wk *Worker, opts *Options) (errmsg string) {
	p := &Path{h: newHarnessRun("<init>", nil), w: wk, opts: opts, pcset: map[int32]bool{}, vseen: map[int32]bool{},
		inames: map[string]bool{}, funcs: map[*ssa.Function]int64{}, tokens: map[int32]*Token{},
		pool: &poolModel{bags: map[*value][]value{}}, extra: map[string]interface{}{}, ranges: map[int32]*rng{}, tokCache: map[string][]value{}}
	p.setModel(Model{})
	p.sched = newSched(p)
	i := P.newInterpreter(p)
	func() {
		defer func() {
			if r := recover(); r != nil {
				errmsg = fmt.Sprintf("%v | %s", r, p.panicTrace)
				if tp, ok := r.(targetPanic); ok {
					errmsg = panicString(tp) + " | " + p.panicTrace
				}
			}
		}()
		P.runInits(i)
	}()
	if errmsg != "" {
		return
	}
	b := &baseState{globals: i.globals, shared: &reachSet{cells: map[*value]bool{}, conts: map[unsafe.Pointer]bool{}, maps: map[uintptr]bool{}}}
	for _, g := range P.globals {
		if ownGlobal(g) {
			b.own = append(b.own, g)
		} else {
			cell := i.globals[g]
			b.shared.cells[cell] = true
			b.shared.walk(*cell)
		}
	}
	wk.base, wk.baseProg = b, P
	return ""
}
