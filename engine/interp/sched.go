package interp

// Cooperative scheduler: interpreted goroutines run one at a time (baton passing);
// every synchronisation operation is a scheduling decision on the trail. A
// happens-before monitor (vector clocks) runs on every explored schedule.

import (
	"fmt"
	"go/token"
	"go/types"
	"reflect"
	"sort"
	"strings"
	"sync"

	"golang.org/x/tools/go/ssa"
)

const maxG = 8

type vclock [maxG]int32

func (a *vclock) join(b *vclock) {
	for i := range a {
		if b[i] > a[i] {
			a[i] = b[i]
		}
	}
}

type gor struct {
	id      int
	vc      vclock
	wake    chan struct{}
	done    bool
	started bool
	blocked func() bool // non-nil while blocked; returns true while still blocked
	what    string      // description of the blocking operation
	frames  int
}

type cellInfo struct {
	wG     int
	wC     int32
	hasW   bool
	wWhere string
	reads  [maxG]int32
	rWhere [maxG]string
}

type syncObj struct {
	held    bool
	holder  int
	readers int
	waitingWriters int
	state   int
	count   int64
	vc      vclock
	rvc     vclock
}

type goexitPanic struct{}

type Sched struct {
	p           *Path
	gs          []*gor
	cur         *gor
	cells       map[interface{}]*cellInfo
	objs        map[interface{}]*syncObj
	preemptions int
	maxPreempt  int
	abort       interface{} // panic value to deliver to the main goroutine
	killing     bool
	yields      int64
	wg          sync.WaitGroup
}

func newSched(p *Path) *Sched {
	g0 := &gor{id: 0, wake: make(chan struct{}, 1), started: true}
	g0.vc[0] = 1
	mp := 2
	if p.opts.Tier > 0 {
		mp = 3
	}
	return &Sched{p: p, gs: []*gor{g0}, cur: g0, cells: map[interface{}]*cellInfo{}, objs: map[interface{}]*syncObj{}, maxPreempt: mp}
}

func (s *Sched) obj(k interface{}) *syncObj {
	o := s.objs[k]
	if o == nil {
		o = &syncObj{}
		s.objs[k] = o
	}
	return o
}

func (s *Sched) multi() bool { return len(s.gs) > 1 }

func (s *Sched) runnable() []*gor {
	var out []*gor
	for _, g := range s.gs {
		if g.done {
			continue
		}
		if g.blocked != nil {
			if g.blocked() {
				continue
			}
		}
		out = append(out, g)
	}
	return out
}

// transfer hands the baton from the current goroutine to next and waits to be resumed.
func (s *Sched) transfer(next *gor) {
	prev := s.cur
	s.cur = next
	next.wake <- struct{}{}
	<-prev.wake
	s.resumeCheck(prev)
}

func (s *Sched) resumeCheck(g *gor) {
	if s.killing && g.id != 0 {
		panic(pathEnd{"killed"})
	}
	if g.id == 0 && s.abort != nil {
		a := s.abort
		s.abort = nil
		panic(a)
	}
}

// yield is a scheduling point of the current goroutine.
func (s *Sched) yield(what string) {
	if !s.multi() {
		if s.cur.blocked != nil && s.cur.blocked() {
			s.deadlock()
		}
		s.cur.blocked = nil
		return
	}
	s.yields++
	for {
		c := s.runnable()
		if len(c) == 0 {
			s.deadlock()
		}
		me := s.cur
		meRunnable := false
		for _, g := range c {
			if g == me {
				meRunnable = true
			}
		}
		var next *gor
		if meRunnable {
			if len(c) == 1 || s.preemptions >= s.maxPreempt {
				next = me
			} else {
				// order: current first, so that choice 0 means "no preemption"
				ord := []*gor{me}
				for _, g := range c {
					if g != me {
						ord = append(ord, g)
					}
				}
				k := s.p.choose(len(ord), "")
				next = ord[k]
				if next != me {
					s.preemptions++
				}
			}
		} else {
			next = c[s.p.choose(len(c), "")]
		}
		if next == me {
			me.blocked = nil
			return
		}
		s.transfer(next)
		if me.blocked == nil || !me.blocked() {
			me.blocked = nil
			return
		}
	}
}

// block suspends the current goroutine until cond() is false.
func (s *Sched) block(what string, cond func() bool) {
	for cond() {
		s.cur.blocked = cond
		s.cur.what = what
		s.yield(what)
	}
	s.cur.blocked = nil
}

func (s *Sched) deadlock() {
	var sb strings.Builder
	for _, g := range s.gs {
		if !g.done {
			fmt.Fprintf(&sb, "g%d blocked on %s; ", g.id, g.what)
		}
	}
	s.p.addViolation("deadlock", "deadlock", sb.String(), s.p.model)
	s.fail(pathEnd{"deadlock"})
}

// fail aborts the path from whatever goroutine is running.
func (s *Sched) fail(v interface{}) {
	if s.cur.id == 0 {
		panic(v)
	}
	// deliver to main
	s.abort = v
	me := s.cur
	me.done = true
	main := s.gs[0]
	s.cur = main
	main.wake <- struct{}{}
	// this host goroutine ends
	panic(pathEnd{"killed"})
}

func (s *Sched) exit(g *gor) {
	g.done = true
	if s.killing {
		return
	}
	c := s.runnable()
	if len(c) == 0 {
		// everyone else is blocked or done
		alive := false
		for _, o := range s.gs {
			if !o.done {
				alive = true
			}
		}
		if !alive {
			return
		}
		var sb strings.Builder
		for _, o := range s.gs {
			if !o.done {
				fmt.Fprintf(&sb, "g%d blocked on %s; ", o.id, o.what)
			}
		}
		s.p.addViolation("deadlock", "deadlock", sb.String(), s.p.model)
		s.abort = pathEnd{"deadlock"}
		main := s.gs[0]
		s.cur = main
		main.wake <- struct{}{}
		return
	}
	next := c[s.p.choose(len(c), "")]
	s.cur = next
	next.wake <- struct{}{}
}

func spawnGoroutine(fr *frame, pos token.Pos, fn value, args []value) {
	s := fr.i.p.sched
	if len(s.gs) >= maxG {
		panic(engineError{"too many goroutines"})
	}
	g := &gor{id: len(s.gs), wake: make(chan struct{}, 1)}
	g.vc = s.cur.vc
	g.vc[g.id] = 1
	s.cur.vc[s.cur.id]++
	s.gs = append(s.gs, g)
	i := fr.i
	s.wg.Add(1)
	go func() {
		<-g.wake
		defer s.wg.Done()
		defer func() {
			r := recover()
			switch r := r.(type) {
			case nil:
				s.exit(g)
			case goexitPanic:
				s.exit(g)
			case pathEnd:
				if r.reason == "killed" {
					g.done = true
					return
				}
				s.deliver(g, r)
			default:
				s.deliver(g, r)
			}
		}()
		if s.killing {
			panic(pathEnd{"killed"})
		}
		call(i, nil, pos, fn, args)
	}()
	s.yield("go")
}

// deliver forwards a panic raised in a non-main goroutine to the main one (ends the path there).
func (s *Sched) deliver(g *gor, r interface{}) {
	g.done = true
	if s.killing {
		return
	}
	if _, ok := r.(targetPanic); ok {
		r = goroutinePanic{r}
	} else if _, ok := r.(runtimeError); ok {
		r = goroutinePanic{r}
	} else if _, ok := r.(error); ok {
		if _, ee := r.(engineError); !ee {
			r = goroutinePanic{r}
		}
	} else if _, ok := r.(string); ok {
		r = goroutinePanic{r}
	}
	s.abort = r
	main := s.gs[0]
	s.cur = main
	main.wake <- struct{}{}
}

type goroutinePanic struct{ v interface{} }

// killAll terminates all non-main goroutines at the end of a path.
func (s *Sched) killAll() {
	s.killing = true
	for _, g := range s.gs[1:] {
		if !g.done {
			g.wake <- struct{}{}
		}
	}
	s.wg.Wait()
}

// joinAll blocks the current goroutine until all others are done (vrt.Join).
func (s *Sched) joinAll() {
	me := s.cur
	s.block("join", func() bool {
		for _, g := range s.gs {
			if g != me && !g.done {
				return true
			}
		}
		return false
	})
	for _, g := range s.gs {
		if g != me {
			me.vc.join(&g.vc)
		}
	}
}

// ---- happens-before monitor

func (s *Sched) where(fr *frame, pos token.Pos) string {
	p := fr.i.prog.Fset.Position(pos)
	file := p.Filename
	if i := strings.LastIndex(file, "/"); i >= 0 {
		if j := strings.LastIndex(file[:i], "/"); j >= 0 {
			file = file[j+1:]
		}
	}
	return fmt.Sprintf("%s:%d(%s)", file, p.Line, fr.fn.Name())
}

func (s *Sched) access(fr *frame, addr interface{}, write bool, pos token.Pos) {
	if len(s.gs) < 2 {
		return
	}
	g := s.cur
	c := s.cells[addr]
	if c == nil {
		c = &cellInfo{}
		s.cells[addr] = c
	}
	if c.hasW && c.wG != g.id && c.wC > g.vc[c.wG] {
		s.race(fr, c.wWhere, "write", write, pos)
	}
	if write {
		for i, rc := range c.reads {
			if i != g.id && rc > g.vc[i] {
				s.race(fr, c.rWhere[i], "read", true, pos)
			}
		}
		c.hasW, c.wG, c.wC, c.wWhere = true, g.id, g.vc[g.id], s.where(fr, pos)
	} else {
		c.reads[g.id] = g.vc[g.id]
		c.rWhere[g.id] = s.where(fr, pos)
	}
}

// accessParts records an access to every field/element cell of a struct or array value held in a cell:
// a whole-struct load or store touches all of its parts, which other goroutines address individually.
func (s *Sched) accessParts(fr *frame, v value, write bool, pos token.Pos) {
	if len(s.gs) < 2 {
		return
	}
	switch x := v.(type) {
	case structure:
		for i := range x {
			s.access(fr, &x[i], write, pos)
			s.accessParts(fr, x[i], write, pos)
		}
	case array:
		for i := range x {
			s.access(fr, &x[i], write, pos)
			s.accessParts(fr, x[i], write, pos)
		}
	}
}

func (s *Sched) race(fr *frame, prevWhere, prevKind string, write bool, pos token.Pos) {
	kind := "read"
	if write {
		kind = "write"
	}
	a, b := prevKind+"@"+prevWhere, kind+"@"+s.where(fr, pos)
	pair := []string{a, b}
	sort.Strings(pair)
	label := "race:" + pair[0] + "~" + pair[1]
	for _, v := range s.p.viols {
		if v.Label == label {
			return
		}
	}
	s.p.addViolation("race", label, "data race between "+a+" and "+b, s.p.model)
}

func mapKey(m value) interface{} {
	switch m := m.(type) {
	case *hashmap:
		return m
	case map[value]value:
		return reflect.ValueOf(m).Pointer()
	}
	return nil
}

// ---- channels

type chanItem struct {
	v     value
	vc    vclock
	taken *bool
}

type mchan struct {
	id       int
	capacity int
	buf      []chanItem // buffered items, or (unbuffered) items deposited by blocked senders
	closed   bool
	closeVC  vclock
	recvWait int
	elem     types.Type
}

func (c *mchan) length() int {
	if c == nil {
		return 0
	}
	n := 0
	for range c.buf {
		n++
	}
	if n > c.capacity {
		n = c.capacity
	}
	return n
}

func makeChan(fr *frame, size int64) value {
	p := fr.i.p
	p.fresh++
	return &mchan{id: p.fresh, capacity: int(size)}
}

func asChan(v value) *mchan {
	switch c := v.(type) {
	case *mchan:
		return c
	case chan value:
		if c == nil {
			return nil
		}
	}
	panic(engineError{fmt.Sprintf("unsupported channel representation %T", v)})
}

func (c *mchan) canRecv() bool { return len(c.buf) > 0 || c.closed }

func (c *mchan) canSend() bool {
	if c.closed {
		return true // will panic
	}
	if c.capacity > 0 {
		return len(c.buf) < c.capacity
	}
	return c.recvWait > 0 && len(c.buf) == 0
}

func chanSend(fr *frame, ch value, v value) {
	s := fr.i.p.sched
	c := asChan(ch)
	s.yield("chan send")
	if c == nil {
		s.block("send on nil channel", func() bool { return true })
	}
	if c.closed {
		panic(targetPanic{iface{fr.i.runtimeErrorString, "send on closed channel"}})
	}
	s.cur.vc[s.cur.id]++
	if c.capacity > 0 {
		s.block("chan send", func() bool { return !c.closed && len(c.buf) >= c.capacity })
		if c.closed {
			panic(targetPanic{iface{fr.i.runtimeErrorString, "send on closed channel"}})
		}
		c.buf = append(c.buf, chanItem{v: v, vc: s.cur.vc})
		return
	}
	taken := false
	c.buf = append(c.buf, chanItem{v: v, vc: s.cur.vc, taken: &taken})
	s.block("chan send", func() bool { return !taken && !c.closed })
	if !taken {
		panic(targetPanic{iface{fr.i.runtimeErrorString, "send on closed channel"}})
	}
}

func (c *mchan) take(s *Sched) (value, bool) {
	if len(c.buf) > 0 {
		it := c.buf[0]
		c.buf = c.buf[1:]
		if it.taken != nil {
			*it.taken = true
		}
		s.cur.vc.join(&it.vc)
		return it.v, true
	}
	// closed
	s.cur.vc.join(&c.closeVC)
	return nil, false
}

func chanRecv(fr *frame, ch value) (value, bool) {
	s := fr.i.p.sched
	c := asChan(ch)
	s.yield("chan recv")
	if c == nil {
		s.block("receive from nil channel", func() bool { return true })
	}
	c.recvWait++
	s.block("chan recv", func() bool { return !c.canRecv() })
	c.recvWait--
	return c.take(s)
}

func chanClose(fr *frame, ch value) {
	s := fr.i.p.sched
	c := asChan(ch)
	s.yield("chan close")
	if c == nil {
		panic(targetPanic{iface{fr.i.runtimeErrorString, "close of nil channel"}})
	}
	if c.closed {
		panic(targetPanic{iface{fr.i.runtimeErrorString, "close of closed channel"}})
	}
	c.closed = true
	c.closeVC = s.cur.vc
	s.cur.vc[s.cur.id]++
}

func doSelect(fr *frame, instr *ssa.Select) value {
	s := fr.i.p.sched
	s.yield("select")
	type cs struct {
		c    *mchan
		send bool
		v    value
	}
	var cases []cs
	for _, st := range instr.States {
		c := asChan(fr.get(st.Chan))
		k := cs{c: c, send: st.Dir == types.SendOnly}
		if k.send {
			k.v = fr.get(st.Send)
		}
		cases = append(cases, k)
	}
	ready := func() []int {
		var r []int
		for i, k := range cases {
			if k.c == nil {
				continue
			}
			if k.send && k.c.canSend() || !k.send && k.c.canRecv() {
				r = append(r, i)
			}
		}
		return r
	}
	chosen := -1
	r := ready()
	if len(r) == 0 {
		if instr.Blocking {
			for _, k := range cases {
				if k.c != nil && !k.send {
					k.c.recvWait++
				}
			}
			s.block("select", func() bool { return len(ready()) == 0 })
			for _, k := range cases {
				if k.c != nil && !k.send {
					k.c.recvWait--
				}
			}
			r = ready()
		}
	}
	if len(r) > 0 {
		chosen = r[fr.i.p.choose(len(r), "")]
	}
	var recv value
	recvOk := false
	if chosen >= 0 {
		k := cases[chosen]
		if k.send {
			if k.c.closed {
				panic(targetPanic{iface{fr.i.runtimeErrorString, "send on closed channel"}})
			}
			s.cur.vc[s.cur.id]++
			if k.c.capacity > 0 {
				k.c.buf = append(k.c.buf, chanItem{v: k.v, vc: s.cur.vc})
			} else {
				taken := false
				k.c.buf = append(k.c.buf, chanItem{v: k.v, vc: s.cur.vc, taken: &taken})
				s.block("chan send", func() bool { return !taken })
			}
		} else {
			recv, recvOk = k.c.take(s)
		}
	}
	res := tuple{chosen, recvOk}
	for i, st := range instr.States {
		if st.Dir == types.RecvOnly {
			var v value
			if i == chosen && recvOk {
				v = recv
			} else {
				v = zero(st.Chan.Type().Underlying().(*types.Chan).Elem())
			}
			res = append(res, v)
		}
	}
	return res
}
