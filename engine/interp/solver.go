package interp

// One persistent SMT solver process per worker, SMT-LIB2 over a pipe.

import (
	"bufio"
	"fmt"
	"io"
	"os"
	"os/exec"
	"strconv"
	"strings"
	"time"
)

type SolverStats struct {
	Queries  int
	Sat      int
	Unsat    int
	Unknown  int
	Errors   int
	Time     time.Duration
	Fallback int // queries answered by a fallback back end
	CrossChk int // assertion queries re-checked on a second solver
}

func (s *SolverStats) add(o SolverStats) {
	s.Queries += o.Queries
	s.Sat += o.Sat
	s.Unsat += o.Unsat
	s.Unknown += o.Unknown
	s.Errors += o.Errors
	s.Time += o.Time
	s.Fallback += o.Fallback
	s.CrossChk += o.CrossChk
}

type backend struct {
	name    string
	argv    []string
	cmd     *exec.Cmd
	in      io.WriteCloser
	out     *bufio.Reader
	defined map[int32]bool
	timeout time.Duration
	stack   []int32 // ids of the literals asserted so far, one push level each
}

func newBackend(name string, timeout time.Duration) *backend {
	b := &backend{name: name, timeout: timeout}
	ms := int(timeout / time.Millisecond)
	switch name {
	case "z3":
		b.argv = []string{"z3", "-in", fmt.Sprintf("-t:%d", ms)}
	case "z3-new":
		b.argv = []string{"z3-new", "-in", fmt.Sprintf("-t:%d", ms)}
	case "cvc5":
		b.argv = []string{"cvc5", "--incremental", "--lang=smt2", "--produce-models", fmt.Sprintf("--tlimit-per=%d", ms)}
	case "cvc5-int":
		b.argv = []string{"cvc5", "--incremental", "--lang=smt2", "--produce-models", "--solve-bv-as-int=sum", fmt.Sprintf("--tlimit-per=%d", ms)}
	default:
		panic("unknown backend " + name)
	}
	return b
}

func (b *backend) start() error {
	b.cmd = exec.Command(b.argv[0], b.argv[1:]...)
	var err error
	if b.in, err = b.cmd.StdinPipe(); err != nil {
		return err
	}
	o, err := b.cmd.StdoutPipe()
	if err != nil {
		return err
	}
	b.cmd.Stderr = nil
	b.out = bufio.NewReaderSize(o, 1<<16)
	b.defined = map[int32]bool{}
	if err := b.cmd.Start(); err != nil {
		return err
	}
	b.stack = nil
	io.WriteString(b.in, "(set-option :global-declarations true)\n")
	if strings.HasPrefix(b.name, "cvc5") {
		io.WriteString(b.in, "(set-logic ALL)\n")
	}
	io.WriteString(b.in, "(set-option :produce-models true)\n")
	return nil
}

func (b *backend) stop() {
	if b.cmd != nil {
		b.in.Close()
		b.cmd.Process.Kill()
		b.cmd.Wait()
		b.cmd = nil
	}
}

// define emits declarations/definitions for every node below t not yet known to the process.
func (b *backend) define(sb *strings.Builder, t *Term) {
	if t == nil || t.op == OpConst || b.defined[t.id] {
		return
	}
	// iterative post-order to avoid deep recursion on long chains
	type item struct {
		t    *Term
		done bool
	}
	stack := []item{{t, false}}
	for len(stack) > 0 {
		it := stack[len(stack)-1]
		stack = stack[:len(stack)-1]
		x := it.t
		if x == nil || x.op == OpConst || b.defined[x.id] {
			continue
		}
		if x.op == OpVar {
			b.defined[x.id] = true
			fmt.Fprintf(sb, "(declare-const %s %s)\n", x.name, sortOf(x))
			continue
		}
		if it.done {
			b.defined[x.id] = true
			fmt.Fprintf(sb, "(define-fun t%d () %s %s)\n", x.id, sortOf(x), body(x))
			continue
		}
		stack = append(stack, item{x, true}, item{x.c, false}, item{x.b, false}, item{x.a, false})
	}
}

// check asks whether the conjunction of lits is satisfiable; if wantModel and sat,
// the values of vars are returned.
func (b *backend) check(lits []*Term, vars []*Term, wantModel bool) (res string, m Model, err error) {
	if b.cmd == nil {
		if err := b.start(); err != nil {
			return "error", nil, err
		}
	}
	var sb strings.Builder
	for _, l := range lits {
		b.define(&sb, l)
	}
	if wantModel {
		for _, v := range vars {
			b.define(&sb, v)
		}
	}
	// incremental: keep the common prefix with the previous query asserted
	k := 0
	for k < len(b.stack) && k < len(lits) && b.stack[k] == lits[k].id {
		k++
	}
	if n := len(b.stack) - k; n > 0 {
		fmt.Fprintf(&sb, "(pop %d)\n", n)
	}
	b.stack = b.stack[:k]
	for _, l := range lits[k:] {
		sb.WriteString("(push 1)\n(assert " + ref(l) + ")\n")
		b.stack = append(b.stack, l.id)
	}
	sb.WriteString("(check-sat)\n")
	if _, err := io.WriteString(b.in, sb.String()); err != nil {
		b.stop()
		return "error", nil, err
	}
	line, err := b.readLine()
	if err != nil {
		b.stop()
		return "error", nil, err
	}
	res = line
	if res != "sat" && res != "unsat" && res != "unknown" {
		// error or unexpected output: the session is no longer trustworthy
		msg := res
		b.stop()
		return "error", nil, fmt.Errorf("solver %s: %s", b.name, msg)
	}
	if res == "sat" && wantModel && len(vars) > 0 {
		var q strings.Builder
		q.WriteString("(get-value (")
		for _, v := range vars {
			q.WriteString(v.name + " ")
		}
		q.WriteString("))\n(echo \"<END>\")\n")
		io.WriteString(b.in, q.String())
		var txt strings.Builder
		for {
			l, err := b.readLine()
			if err != nil {
				b.stop()
				return "error", nil, err
			}
			if strings.Contains(l, "<END>") {
				break
			}
			if strings.HasPrefix(l, "(error") {
				b.stop()
				return "error", nil, fmt.Errorf("solver %s: %s", b.name, l)
			}
			txt.WriteString(l)
			txt.WriteByte(' ')
		}
		m, err = parseModel(txt.String(), vars)
		if err != nil {
			b.stop()
			return "error", nil, err
		}
	}
	return res, m, nil
}

func (b *backend) readLine() (string, error) {
	for {
		l, err := b.out.ReadString('\n')
		if err != nil {
			return "", err
		}
		l = strings.TrimSpace(l)
		if l == "" {
			continue
		}
		return l, nil
	}
}

// parseModel parses "((v1 #x..) (v2 #b..) (v3 true))".
func parseModel(s string, vars []*Term) (Model, error) {
	byName := map[string]*Term{}
	for _, v := range vars {
		byName[v.name] = v
	}
	m := Model{}
	toks := strings.Fields(strings.NewReplacer("(", " ( ", ")", " ) ").Replace(s))
	for i := 0; i+1 < len(toks); i++ {
		v, ok := byName[toks[i]]
		if !ok {
			continue
		}
		val := toks[i+1]
		switch {
		case val == "true":
			m[v.id] = 1
		case val == "false":
			m[v.id] = 0
		case strings.HasPrefix(val, "#x"):
			u, err := strconv.ParseUint(val[2:], 16, 64)
			if err != nil {
				return nil, err
			}
			m[v.id] = u
		case strings.HasPrefix(val, "#b"):
			u, err := strconv.ParseUint(val[2:], 2, 64)
			if err != nil {
				return nil, err
			}
			m[v.id] = u
		case val == "(" && i+3 < len(toks) && toks[i+2] == "_" && strings.HasPrefix(toks[i+3], "bv"):
			u, err := strconv.ParseUint(toks[i+3][2:], 10, 64)
			if err != nil {
				return nil, err
			}
			m[v.id] = u
		default:
			return nil, fmt.Errorf("cannot parse model value %q for %s", val, v.name)
		}
	}
	return m, nil
}

// Solver is a worker's portfolio: a primary back end plus fallbacks used on unknown.
type Solver struct {
	primary   *backend
	fallbacks []*backend
	cross     *backend // optional cross-check back end for assertion queries
	Stats     SolverStats
}

type SolverConfig struct {
	Timeout  time.Duration
	Cross    bool
	Primary  string
}

func NewSolver(cfg SolverConfig) *Solver {
	if cfg.Timeout == 0 {
		cfg.Timeout = 10 * time.Second
	}
	if cfg.Primary == "" {
		cfg.Primary = os.Getenv("ZSYM_SOLVER")
	}
	if cfg.Primary == "" {
		cfg.Primary = "z3-new"
	}
	s := &Solver{primary: newBackend(cfg.Primary, cfg.Timeout)}
	for _, n := range []string{"z3", "z3-new", "cvc5", "cvc5-int"} {
		if n != cfg.Primary {
			s.fallbacks = append(s.fallbacks, newBackend(n, cfg.Timeout))
		}
	}
	if cfg.Cross {
		s.cross = newBackend("cvc5", cfg.Timeout)
	}
	return s
}

func (s *Solver) Close() {
	s.primary.stop()
	for _, b := range s.fallbacks {
		b.stop()
	}
	if s.cross != nil {
		s.cross.stop()
	}
}

// Check decides satisfiability of the conjunction. Result is "sat", "unsat" or "unknown"
// (unknown also covers solver errors: the caller must treat it as inconclusive).
func (s *Solver) Check(lits []*Term, vars []*Term, wantModel bool, assertion bool, hint string) (string, Model) {
	t0 := time.Now()
	defer func() { s.Stats.Time += time.Since(t0) }()
	s.Stats.Queries++
	primary := s.primary
	if hint == "int" {
		// multiply/divide-by-constant kernels: integer encoding of the same bit-vector text first
		for _, fb := range s.fallbacks {
			if fb.name == "cvc5-int" {
				primary = fb
			}
		}
	}
	var res string
	var m Model
	var err error
	if primary != s.primary {
		// fresh process per query: cvc5's integer translation is markedly weaker in incremental sessions
		res, m, err = oneShot(primary, lits, vars, wantModel)
	} else {
		res, m, err = primary.check(lits, vars, wantModel)
	}
	if primary != s.primary && (err != nil || res == "unknown") {
		res, m, err = s.primary.check(lits, vars, wantModel)
	}
	if err != nil {
		s.Stats.Errors++
		res = "unknown"
	}
	if res == "unknown" {
		for _, fb := range s.fallbacks {
			r2, m2, err := fb.check(lits, vars, wantModel)
			if err == nil && (r2 == "sat" || r2 == "unsat") {
				res, m = r2, m2
				s.Stats.Fallback++
				break
			}
		}
	}
	if assertion && s.cross != nil && (res == "sat" || res == "unsat") {
		r2, _, err := s.cross.check(lits, nil, false)
		s.Stats.CrossChk++
		if err == nil && (r2 == "sat" || r2 == "unsat") && r2 != res {
			panic(engineError{fmt.Sprintf("SOLVER-DISAGREEMENT: %s says %s, cvc5 says %s", s.primary.name, res, r2)})
		}
	}
	if d := time.Since(t0); d > 2*time.Second && os.Getenv("ZSYM_SLOWLOG") != "" {
		last := ""
		if len(lits) > 0 {
			last = lits[len(lits)-1].String()
		}
		fmt.Fprintf(os.Stderr, "SLOW-QUERY %.1fs res=%s lits=%d last=%s\n", d.Seconds(), res, len(lits), last)
	}
	switch res {
	case "sat":
		s.Stats.Sat++
	case "unsat":
		s.Stats.Unsat++
	default:
		s.Stats.Unknown++
	}
	return res, m
}

// oneShot decides one query in a fresh solver process.
func oneShot(b *backend, lits []*Term, vars []*Term, wantModel bool) (string, Model, error) {
	tmp := &backend{name: b.name, defined: map[int32]bool{}}
	var sb strings.Builder
	sb.WriteString("(set-logic ALL)\n(set-option :produce-models true)\n")
	for _, l := range lits {
		tmp.define(&sb, l)
	}
	if wantModel {
		for _, v := range vars {
			tmp.define(&sb, v)
		}
	}
	for _, l := range lits {
		sb.WriteString("(assert " + ref(l) + ")\n")
	}
	sb.WriteString("(check-sat)\n")
	if wantModel && len(vars) > 0 {
		sb.WriteString("(get-value (")
		for _, v := range vars {
			sb.WriteString(v.name + " ")
		}
		sb.WriteString("))\n")
	}
	argv := append([]string{}, b.argv[1:]...)
	for i, a := range argv {
		if a == "--incremental" {
			argv = append(argv[:i], argv[i+1:]...)
			break
		}
	}
	cmd := exec.Command(b.argv[0], argv...)
	cmd.Stdin = strings.NewReader(sb.String())
	out, err := cmd.Output()
	text := string(out)
	first := strings.TrimSpace(text)
	if i := strings.IndexByte(first, '\n'); i >= 0 {
		first = first[:i]
	}
	switch first {
	case "sat":
		var m Model
		if wantModel && len(vars) > 0 {
			rest := text[strings.Index(text, "sat")+3:]
			if strings.Contains(rest, "(error") {
				return "unknown", nil, nil
			}
			m, err = parseModel(rest, vars)
			if err != nil {
				return "unknown", nil, nil
			}
		}
		return "sat", m, nil
	case "unsat":
		return "unsat", nil, nil
	}
	_ = err
	return "unknown", nil, nil
}
