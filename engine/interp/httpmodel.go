package interp

// Contract stubs for the small part of net/http and encoding/json that AtomicLevel's HTTP handler uses.
// Header lookup and form access read what the harness put into the request; request parsing itself
// (net/http) and JSON tokenising (encoding/json) are trusted library code and are not executed.

import (
	"go/token"
	"go/types"
	"net/textproto"
	"reflect"
	"strings"
)

func init() {
	I := intrinsics
	I["(net/http.Header).Get"] = func(fr *frame, args []value) value {
		key := textproto.CanonicalMIMEHeaderKey(argStr(fr, args[1]))
		m, _ := args[0].(map[value]value)
		if m == nil {
			return ""
		}
		if v, ok := m[key]; ok {
			if vs, _ := v.([]value); len(vs) > 0 {
				return vs[0]
			}
		}
		return ""
	}
	// FormValue: the first value of the named component of r.Form, which the harness fills in directly
	// (net/http's parsing of body and query, and body-over-query precedence, are its documented behaviour).
	I["(*net/http.Request).FormValue"] = func(fr *frame, args []value) value {
		req := (*args[0].(*value)).(structure)
		rt := fr.fn.Signature.Recv().Type().(*types.Pointer).Elem().Underlying().(*types.Struct)
		for i := 0; i < rt.NumFields(); i++ {
			if rt.Field(i).Name() == "Form" {
				m, _ := req[i].(map[value]value)
				if m == nil {
					return ""
				}
				if v, ok := m[argStr(fr, args[1])]; ok {
					if vs, _ := v.([]value); len(vs) > 0 {
						return vs[0]
					}
				}
				return ""
			}
		}
		panic(engineError{"http.Request has no Form field"})
	}

	// json.Decoder over a body that describes itself: the reader's dynamic type has a method
	//   VerifJSONBody() (mode int, level []byte)
	// mode 0: not JSON (Decode fails); 1: a JSON object without "level"; 2: {"level": "<level bytes>"}.
	// For mode 2 the text is handed to the target's real UnmarshalText, whose error Decode returns.
	I["encoding/json.NewDecoder"] = func(fr *frame, args []value) value {
		cell := new(value)
		*cell = structure{}
		fr.i.p.extra["jsondec"+ptrKey(cell)] = args[0]
		return cell
	}
	I["(*encoding/json.Decoder).Decode"] = func(fr *frame, args []value) value {
		rd, ok := fr.i.p.extra["jsondec"+ptrKey(args[0].(*value))].(iface)
		if !ok || rd.t == nil {
			panic(engineError{"json stub: Decode on a decoder not created by NewDecoder"})
		}
		m := findMethod(fr, rd.t, "VerifJSONBody")
		if m == nil {
			panic(engineError{"json stub: Decode from a reader that does not describe its body (" + rd.t.String() + ")"})
		}
		res := call(fr.i, fr, token.NoPos, m, []value{rd.v}).(tuple)
		var doc jdoc
		switch int(fr.conc(res[0])) {
		case 0:
			return makeError(fr, "invalid character 'x' looking for beginning of value")
		case 1:
			doc = jobj{keys: []string{"other"}, vals: []jdoc{jnum("1")}}
		case 2:
			doc = jobj{keys: []string{"level"}, vals: []jdoc{jstr{mkStr(append([]value{}, res[1].([]value)...))}}}
		case 3:
			doc = jobj{keys: []string{"level"}, vals: []jdoc{nil}}
		case 4:
			doc = jobj{keys: []string{"level"}, vals: []jdoc{jnum("5")}}
		default:
			panic(engineError{"json stub: unknown body mode"})
		}
		target := args[1].(iface)
		pt, _ := target.t.(*types.Pointer)
		if pt == nil {
			return makeError(fr, "json: Unmarshal(non-pointer)")
		}
		return jsonPopulate(fr, pt.Elem(), target.v.(*value), doc)
	}
	// json.Unmarshal of a single scalar document (what a RawMessage produced by the stub holds).
	I["encoding/json.Unmarshal"] = func(fr *frame, args []value) value {
		data := args[0].([]value)
		target := args[1].(iface)
		pt, _ := target.t.(*types.Pointer)
		if pt == nil || target.v.(*value) == nil {
			return makeError(fr, "json: Unmarshal(non-pointer or nil)")
		}
		doc, ok := jsonScalarDoc(data)
		if !ok {
			panic(engineError{"json stub: Unmarshal of a document that is not a single scalar"})
		}
		return jsonPopulate(fr, pt.Elem(), target.v.(*value), doc)
	}
}

// A tiny JSON document model: nil (null), jstr, jnum, jobj.
type jdoc interface{}
type jstr struct{ s value } // string or symstr (bytes assumed free of quote and backslash)
type jnum string
type jobj struct {
	keys []string
	vals []jdoc
}

func jsonRender(d jdoc) []value {
	switch x := d.(type) {
	case nil:
		return strBytes("null")
	case jstr:
		out := []value{byte('"')}
		out = append(out, strBytes(x.s)...)
		return append(out, byte('"'))
	case jnum:
		return strBytes(string(x))
	}
	panic(engineError{"json stub: cannot render an object into a RawMessage"})
}

func jsonScalarDoc(data []value) (jdoc, bool) {
	isConc := func(i int, c byte) bool { b, ok := data[i].(uint8); return ok && b == c }
	n := len(data)
	if n >= 2 && isConc(0, '"') && isConc(n-1, '"') {
		return jstr{mkStr(append([]value{}, data[1:n-1]...))}, true
	}
	var sb strings.Builder
	for _, e := range data {
		b, ok := e.(uint8)
		if !ok {
			return nil, false
		}
		sb.WriteByte(b)
	}
	t := strings.TrimSpace(sb.String())
	if t == "null" {
		return nil, true
	}
	if t != "" && strings.Trim(t, "0123456789.-+eE") == "" {
		return jnum(t), true
	}
	return nil, false
}

// jsonPopulate stores doc into the cell of static type t the way encoding/json would, running the
// target's own UnmarshalText where it has one. It returns the error value (nil interface on success).
func jsonPopulate(fr *frame, t types.Type, cell *value, doc jdoc) value {
	if named, ok := t.(*types.Named); ok && named.Obj().Pkg() != nil && named.Obj().Pkg().Path() == "encoding/json" && named.Obj().Name() == "RawMessage" {
		*cell = jsonRender(doc)
		return iface{}
	}
	if findMethod(fr, types.NewPointer(t), "UnmarshalJSON") != nil {
		panic(engineError{"json stub: target type " + t.String() + " has its own UnmarshalJSON"})
	}
	if p, ok := t.Underlying().(*types.Pointer); ok {
		if doc == nil {
			*cell = (*value)(nil)
			return iface{}
		}
		nv := new(value)
		*nv = zero(p.Elem())
		if err := jsonPopulate(fr, p.Elem(), nv, doc); !isNilIface(err) {
			return err
		}
		*cell = nv
		return iface{}
	}
	if doc == nil {
		return iface{} // null into a non-pointer: no effect
	}
	if um := findMethod(fr, types.NewPointer(t), "UnmarshalText"); um != nil {
		s, ok := doc.(jstr)
		if !ok {
			return makeError(fr, "json: cannot unmarshal number into Go value of type "+t.String())
		}
		return call(fr.i, fr, token.NoPos, um, []value{cell, append([]value{}, strBytes(s.s)...)})
	}
	switch u := t.Underlying().(type) {
	case *types.Struct:
		o, ok := doc.(jobj)
		if !ok {
			return makeError(fr, "json: cannot unmarshal into Go value of type "+t.String())
		}
		st := (*cell).(structure)
		for k, key := range o.keys {
			for i := 0; i < u.NumFields(); i++ {
				name := strings.Split(reflect.StructTag(u.Tag(i)).Get("json"), ",")[0]
				if name == "" {
					name = u.Field(i).Name()
				}
				if name == "-" || !strings.EqualFold(name, key) {
					continue
				}
				if err := jsonPopulate(fr, u.Field(i).Type(), &st[i], o.vals[k]); !isNilIface(err) {
					return err
				}
			}
		}
		return iface{}
	case *types.Basic:
		switch {
		case u.Info()&types.IsString != 0:
			s, ok := doc.(jstr)
			if !ok {
				return makeError(fr, "json: cannot unmarshal number into Go value of type string")
			}
			*cell = s.s
			return iface{}
		}
	}
	panic(engineError{"json stub: cannot populate " + t.String()})
}

func isNilIface(v value) bool {
	i, ok := v.(iface)
	return ok && i.t == nil
}

func ptrKey(p *value) string { return reflect.ValueOf(p).String() + addrString(p) }

func addrString(p *value) string {
	return strings.TrimSpace(strings.ToLower(reflect.ValueOf(p).Type().String())) + ":" + uintptrString(reflect.ValueOf(p).Pointer())
}

func uintptrString(u uintptr) string {
	const digits = "0123456789abcdef"
	if u == 0 {
		return "0"
	}
	var b []byte
	for u > 0 {
		b = append([]byte{digits[u%16]}, b...)
		u /= 16
	}
	return string(b)
}
