package interp

// Contract stubs for the small part of net/http and encoding/json that AtomicLevel's HTTP handler uses.
// Header lookup and form access read what the harness put into the request; request parsing itself
// (net/http) and JSON tokenising (encoding/json) are trusted library code and are not executed.

import (
	"go/token"
	"go/types"
	"net/textproto"
	"reflect"
	"strings"
)

func init() {
	I := intrinsics
	I["(net/http.Header).Get"] = func(fr *frame, args []value) value {
		key := textproto.CanonicalMIMEHeaderKey(argStr(fr, args[1]))
		m, _ := args[0].(map[value]value)
		if m == nil {
			return ""
		}
		if v, ok := m[key]; ok {
			if vs, _ := v.([]value); len(vs) > 0 {
				return vs[0]
			}
		}
		return ""
	}
	// FormValue: the first value of the named component of r.Form, which the harness fills in directly
	// (net/http's parsing of body and query, and body-over-query precedence, are its documented behaviour).
	I["(*net/http.Request).FormValue"] = func(fr *frame, args []value) value {
		req := (*args[0].(*value)).(structure)
		rt := fr.fn.Signature.Recv().Type().(*types.Pointer).Elem().Underlying().(*types.Struct)
		for i := 0; i < rt.NumFields(); i++ {
			if rt.Field(i).Name() == "Form" {
				m, _ := req[i].(map[value]value)
				if m == nil {
					return ""
				}
				if v, ok := m[argStr(fr, args[1])]; ok {
					if vs, _ := v.([]value); len(vs) > 0 {
						return vs[0]
					}
				}
				return ""
			}
		}
		panic(engineError{"http.Request has no Form field"})
	}

	// json.Decoder over a body that describes itself: the reader's dynamic type has a method
	//   VerifJSONBody() (mode int, level []byte)
	// mode 0: not JSON (Decode fails); 1: a JSON object without "level"; 2: {"level": "<level bytes>"}.
	// For mode 2 the text is handed to the target's real UnmarshalText, whose error Decode returns.
	I["encoding/json.NewDecoder"] = func(fr *frame, args []value) value {
		cell := new(value)
		*cell = structure{}
		fr.i.p.extra["jsondec"+ptrKey(cell)] = args[0]
		return cell
	}
	I["(*encoding/json.Decoder).Decode"] = func(fr *frame, args []value) value {
		rd, ok := fr.i.p.extra["jsondec"+ptrKey(args[0].(*value))].(iface)
		if !ok || rd.t == nil {
			panic(engineError{"json stub: Decode on a decoder not created by NewDecoder"})
		}
		m := findMethod(fr, rd.t, "VerifJSONBody")
		if m == nil {
			panic(engineError{"json stub: Decode from a reader that does not describe its body (" + rd.t.String() + ")"})
		}
		res := call(fr.i, fr, token.NoPos, m, []value{rd.v}).(tuple)
		mode := int(fr.conc(res[0]))
		switch mode {
		case 0:
			return makeError(fr, "invalid character 'x' looking for beginning of value")
		case 1:
			return iface{}
		}
		// locate the `json:"level"` field of the target struct
		target := args[1].(iface)
		pt, _ := target.t.(*types.Pointer)
		if pt == nil {
			panic(engineError{"json stub: Decode target is not a pointer"})
		}
		st, _ := pt.Elem().Underlying().(*types.Struct)
		if st == nil {
			panic(engineError{"json stub: Decode target is not a struct"})
		}
		cellp := target.v.(*value)
		for i := 0; i < st.NumFields(); i++ {
			tag := reflect.StructTag(st.Tag(i)).Get("json")
			name := strings.Split(tag, ",")[0]
			if name == "" {
				name = st.Field(i).Name()
			}
			if !strings.EqualFold(name, "level") {
				continue
			}
			ft := st.Field(i).Type()
			elem := ft
			isPtr := false
			if p, ok := ft.(*types.Pointer); ok {
				elem, isPtr = p.Elem(), true
			}
			um := findMethod(fr, types.NewPointer(elem), "UnmarshalText")
			if um == nil {
				panic(engineError{"json stub: level field without UnmarshalText"})
			}
			nv := new(value)
			*nv = zero(elem)
			if !isPtr {
				*nv = (*cellp).(structure)[i]
			}
			errv := call(fr.i, fr, token.NoPos, um, []value{nv, res[1]})
			if e, ok := errv.(iface); ok && e.t != nil {
				return errv
			}
			s := (*cellp).(structure)
			if isPtr {
				s[i] = nv
			} else {
				s[i] = *nv
			}
			return iface{}
		}
		return iface{}
	}
}

func ptrKey(p *value) string { return reflect.ValueOf(p).String() + addrString(p) }

func addrString(p *value) string {
	return strings.TrimSpace(strings.ToLower(reflect.ValueOf(p).Type().String())) + ":" + uintptrString(reflect.ValueOf(p).Pointer())
}

func uintptrString(u uintptr) string {
	const digits = "0123456789abcdef"
	if u == 0 {
		return "0"
	}
	var b []byte
	for u > 0 {
		b = append([]byte{digits[u%16]}, b...)
		u /= 16
	}
	return string(b)
}
