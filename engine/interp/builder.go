package interp

// strings.Builder on boxed values (the real one guards against copying with an unsafe self-pointer).

import "unicode/utf8"

func builderBuf(args []value) *value {
	p := args[0].(*value)
	if p == nil {
		panic(runtimeError("invalid memory address or nil pointer dereference"))
	}
	st := (*p).(structure)
	return &st[len(st)-1] // buf []byte is the last field
}

func init() {
	I := intrinsics
	bufOf := func(args []value) []value {
		b, _ := (*builderBuf(args)).([]value)
		return b
	}
	I["(*strings.Builder).WriteString"] = func(fr *frame, args []value) value {
		c := builderBuf(args)
		s := strBytes(args[1])
		*c = append(bufOf(args), s...)
		return tuple{len(s), iface{}}
	}
	I["(*strings.Builder).Write"] = func(fr *frame, args []value) value {
		c := builderBuf(args)
		s := args[1].([]value)
		*c = append(bufOf(args), s...)
		return tuple{len(s), iface{}}
	}
	I["(*strings.Builder).WriteByte"] = func(fr *frame, args []value) value {
		c := builderBuf(args)
		*c = append(bufOf(args), args[1])
		return iface{}
	}
	I["(*strings.Builder).WriteRune"] = func(fr *frame, args []value) value {
		c := builderBuf(args)
		r := rune(fr.conc(args[1]))
		var tmp [4]byte
		n := utf8.EncodeRune(tmp[:], r)
		*c = append(bufOf(args), bytesToValues(tmp[:n])...)
		return tuple{n, iface{}}
	}
	I["(*strings.Builder).String"] = func(fr *frame, args []value) value {
		return mkStr(append([]value{}, bufOf(args)...))
	}
	I["(*strings.Builder).Len"] = func(fr *frame, args []value) value { return len(bufOf(args)) }
	I["(*strings.Builder).Cap"] = func(fr *frame, args []value) value { return cap(bufOf(args)) }
	I["(*strings.Builder).Grow"] = func(fr *frame, args []value) value { return nil }
	I["(*strings.Builder).Reset"] = func(fr *frame, args []value) value {
		*builderBuf(args) = []value(nil)
		return nil
	}
}
