package interp

// reflect.DeepEqual on boxed values (the documented rules of the reflect package).

import (
	"go/token"
	"go/types"
	"reflect"
)

type deVisit struct {
	a, b interface{}
}

func init() {
	intrinsics["reflect.DeepEqual"] = func(fr *frame, args []value) value {
		x, y := args[0].(iface), args[1].(iface)
		if x.t == nil || y.t == nil {
			return x.t == nil && y.t == nil
		}
		if !types.Identical(x.t, y.t) {
			return false
		}
		return deepEq(fr, x.t, x.v, y.v, map[deVisit]bool{})
	}
}

func deepEq(fr *frame, t types.Type, x, y value, seen map[deVisit]bool) bool {
	switch u := t.Underlying().(type) {
	case *types.Basic:
		return fr.cond(binop(token.EQL, t, x, y))
	case *types.Pointer:
		px, py := x.(*value), y.(*value)
		if px == py {
			return true
		}
		if px == nil || py == nil {
			return false
		}
		k := deVisit{px, py}
		if seen[k] {
			return true
		}
		seen[k] = true
		return deepEq(fr, u.Elem(), *px, *py, seen)
	case *types.Slice:
		sx, sy := x.([]value), y.([]value)
		if (sx == nil) != (sy == nil) {
			return false
		}
		if len(sx) != len(sy) {
			return false
		}
		if len(sx) == 0 || &sx[0] == &sy[0] {
			return true
		}
		for i := range sx {
			if !deepEq(fr, u.Elem(), sx[i], sy[i], seen) {
				return false
			}
		}
		return true
	case *types.Array:
		ax, ay := x.(array), y.(array)
		for i := range ax {
			if !deepEq(fr, u.Elem(), ax[i], ay[i], seen) {
				return false
			}
		}
		return true
	case *types.Struct:
		sx, sy := x.(structure), y.(structure)
		for i := 0; i < u.NumFields(); i++ {
			if !deepEq(fr, u.Field(i).Type(), sx[i], sy[i], seen) {
				return false
			}
		}
		return true
	case *types.Interface:
		ix, iy := x.(iface), y.(iface)
		if ix.t == nil || iy.t == nil {
			return ix.t == nil && iy.t == nil
		}
		if !types.Identical(ix.t, iy.t) {
			return false
		}
		return deepEq(fr, ix.t, ix.v, iy.v, seen)
	case *types.Map:
		switch mx := x.(type) {
		case map[value]value:
			my := y.(map[value]value)
			if (mx == nil) != (my == nil) || len(mx) != len(my) {
				return false
			}
			if reflect.ValueOf(mx).Pointer() == reflect.ValueOf(my).Pointer() {
				return true
			}
			for _, k := range sortedKeys(mx) {
				vy, ok := my[k]
				if !ok || !deepEq(fr, u.Elem(), mx[k], vy, seen) {
					return false
				}
			}
			return true
		case *hashmap:
			my := y.(*hashmap)
			if (mx == nil) != (my == nil) {
				return false
			}
			if mx == my {
				return true
			}
			if mx.len() != my.len() {
				return false
			}
			for _, e := range mx.entries() {
				for ; e != nil; e = e.next {
					vy := my.lookup(e.key)
					if vy == nil || !deepEq(fr, u.Elem(), e.value, vy, seen) {
						return false
					}
				}
			}
			return true
		}
	case *types.Signature:
		// funcs are equal only if both nil
		return isNilFunc(x) && isNilFunc(y)
	case *types.Chan:
		return x == y
	}
	panic(engineError{"reflect.DeepEqual on " + t.String()})
}

func isNilFunc(v value) bool {
	switch f := v.(type) {
	case *closure:
		return f == nil
	}
	if f, ok := v.(interface{ Name() string }); ok {
		_ = f
	}
	return reflect.ValueOf(v).IsNil()
}
