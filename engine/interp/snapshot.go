package interp

// Per-worker initial heap: package initialisers run once per worker; each path
// starts from a deep copy of the part of the boxed heap that belongs to zap's own
// packages (everything reachable from their globals), while the heap reachable
// from other packages' globals (immutable tables) is shared.

import (
	"reflect"
	"strings"
	"unsafe"

	"golang.org/x/tools/go/ssa"
)

type baseState struct {
	globals map[*ssa.Global]*value // all globals after init
	own     []*ssa.Global          // globals that are copied per path
	shared  *reachSet              // heap reachable from the non-copied globals
}

type reachSet struct {
	cells map[*value]bool
	conts map[unsafe.Pointer]bool
	maps  map[uintptr]bool
}

func ownGlobal(g *ssa.Global) bool {
	if g.Pkg == nil {
		return false
	}
	path := g.Pkg.Pkg.Path()
	return strings.HasPrefix(path, "go.uber.org/zap") || path == "log"
}

func contKey(s []value) unsafe.Pointer {
	if cap(s) == 0 {
		return nil
	}
	full := s[:cap(s)]
	return unsafe.Pointer(&full[0])
}

func (r *reachSet) walk(v value) {
	switch x := v.(type) {
	case *value:
		if x == nil || r.cells[x] {
			return
		}
		r.cells[x] = true
		r.walk(*x)
	case structure:
		r.walkCont([]value(x))
	case array:
		r.walkCont([]value(x))
	case []value:
		r.walkCont(x)
	case tuple:
		for _, e := range x {
			r.walk(e)
		}
	case iface:
		r.walk(x.v)
	case *closure:
		if x != nil {
			r.walkCont(x.Env)
		}
	case map[value]value:
		if x == nil {
			return
		}
		k := reflect.ValueOf(x).Pointer()
		if r.maps[k] {
			return
		}
		r.maps[k] = true
		for kk, e := range x {
			r.walk(kk)
			r.walk(e)
		}
	case *hashmap:
		if x == nil {
			return
		}
		k := uintptr(unsafe.Pointer(x))
		if r.maps[k] {
			return
		}
		r.maps[k] = true
		for _, e := range x.entries() {
			for ; e != nil; e = e.next {
				r.walk(e.key)
				r.walk(e.value)
			}
		}
	case symstr:
		// immutable
	}
}

func (r *reachSet) walkCont(s []value) {
	k := contKey(s)
	if k == nil || r.conts[k] {
		return
	}
	r.conts[k] = true
	full := s[:cap(s)]
	for i := range full {
		r.cells[&full[i]] = true
		r.walk(full[i])
	}
}

// copier deep-copies the own part of the heap.
type copier struct {
	shared *reachSet
	cells  map[*value]*value
	conts  map[unsafe.Pointer][]value
	maps   map[uintptr]value
	clos   map[*closure]*closure
	todo   []func()
}

// discover allocates a new container for every reachable own container and maps its cells.
func (c *copier) discover(v value) {
	switch x := v.(type) {
	case *value:
		if x == nil || c.shared.cells[x] {
			return
		}
		if _, ok := c.cells[x]; ok {
			return
		}
		// tentatively unknown: mark visited with nil so cycles terminate; a container may claim it later
		c.cells[x] = nil
		c.discover(*x)
	case structure:
		c.discoverCont([]value(x))
	case array:
		c.discoverCont([]value(x))
	case []value:
		c.discoverCont(x)
	case tuple:
		for _, e := range x {
			c.discover(e)
		}
	case iface:
		c.discover(x.v)
	case *closure:
		if x != nil {
			if _, ok := c.clos[x]; !ok {
				c.clos[x] = &closure{Fn: x.Fn}
				c.discoverCont(x.Env)
			}
		}
	case map[value]value:
		if x == nil {
			return
		}
		k := reflect.ValueOf(x).Pointer()
		if c.shared.maps[k] {
			return
		}
		if _, ok := c.maps[k]; ok {
			return
		}
		c.maps[k] = make(map[value]value, len(x))
		for kk, e := range x {
			c.discover(kk)
			c.discover(e)
		}
	case *hashmap:
		if x == nil {
			return
		}
		k := uintptr(unsafe.Pointer(x))
		if c.shared.maps[k] {
			return
		}
		if _, ok := c.maps[k]; ok {
			return
		}
		c.maps[k] = &hashmap{keyType: x.keyType, table: make(map[int]*entry)}
		for _, e := range x.entries() {
			for ; e != nil; e = e.next {
				c.discover(e.key)
				c.discover(e.value)
			}
		}
	}
}

func (c *copier) discoverCont(s []value) {
	k := contKey(s)
	if k == nil || c.shared.conts[k] {
		return
	}
	if _, ok := c.conts[k]; ok {
		return
	}
	full := s[:cap(s)]
	n := make([]value, len(full))
	c.conts[k] = n
	for i := range full {
		c.cells[&full[i]] = &n[i]
	}
	for i := range full {
		c.discover(full[i])
	}
}

func (c *copier) cellOf(old *value) *value {
	if old == nil {
		return nil
	}
	if c.shared.cells[old] {
		return old
	}
	if n, ok := c.cells[old]; ok && n != nil {
		return n
	}
	// standalone heap cell
	n := new(value)
	c.cells[old] = n
	c.todo = append(c.todo, func() { *n = c.tr(*old) })
	return n
}

func (c *copier) contOf(s []value) []value {
	k := contKey(s)
	if k == nil {
		return s
	}
	if c.shared.conts[k] {
		return s
	}
	n, ok := c.conts[k]
	if !ok {
		// not discovered (cannot happen after discover); copy independently
		full := s[:cap(s)]
		n = make([]value, len(full))
		c.conts[k] = n
		for i := range full {
			c.cells[&full[i]] = &n[i]
		}
		c.todo = append(c.todo, func() {
			for i := range full {
				n[i] = c.tr(full[i])
			}
		})
	}
	// re-slice n like s within its backing array
	full := s[:cap(s)]
	off := cap(full) - cap(s) // always 0: s[:cap(s)] starts at s's start
	_ = off
	return n[:len(s):cap(s)]
}

// tr translates a value into the copied heap.
func (c *copier) tr(v value) value {
	switch x := v.(type) {
	case *value:
		if x == nil {
			return x
		}
		return c.cellOf(x)
	case structure:
		return structure(c.contOf([]value(x)))
	case array:
		return array(c.contOf([]value(x)))
	case []value:
		if x == nil {
			return x
		}
		return c.contOf(x)
	case tuple:
		out := make(tuple, len(x))
		for i, e := range x {
			out[i] = c.tr(e)
		}
		return out
	case iface:
		return iface{t: x.t, v: c.tr(x.v)}
	case *closure:
		if x == nil {
			return x
		}
		if n, ok := c.clos[x]; ok {
			return n
		}
		n := &closure{Fn: x.Fn}
		c.clos[x] = n
		n.Env = c.contOf(x.Env)
		return n
	case map[value]value:
		if x == nil {
			return x
		}
		k := reflect.ValueOf(x).Pointer()
		if c.shared.maps[k] {
			return x
		}
		if n, ok := c.maps[k]; ok {
			return n
		}
		return x
	case *hashmap:
		if x == nil {
			return x
		}
		k := uintptr(unsafe.Pointer(x))
		if c.shared.maps[k] {
			return x
		}
		if n, ok := c.maps[k]; ok {
			return n
		}
		return x
	}
	return v
}

// fork builds the globals of a fresh path from the base state.
func (b *baseState) fork() map[*ssa.Global]*value {
	c := &copier{shared: b.shared, cells: map[*value]*value{}, conts: map[unsafe.Pointer][]value{}, maps: map[uintptr]value{}, clos: map[*closure]*closure{}}
	for _, g := range b.own {
		cell := b.globals[g]
		c.cells[cell] = nil
		c.discover(*cell)
	}
	out := make(map[*ssa.Global]*value, len(b.own))
	for _, g := range b.own {
		cell := b.globals[g]
		n := new(value)
		c.cells[cell] = n
		out[g] = n
	}
	// fill containers
	for k, n := range c.conts {
		old := unsafe.Slice((*value)(k), len(n))
		for i := range old {
			n[i] = c.tr(old[i])
		}
	}
	for _, g := range b.own {
		*out[g] = c.tr(*b.globals[g])
	}
	for old, n := range c.clos {
		n.Env = c.contOf(old.Env)
	}
	// maps
	for _, g := range b.own {
		_ = g
	}
	c.fillMaps(b)
	for len(c.todo) > 0 {
		t := c.todo
		c.todo = nil
		for _, f := range t {
			f()
		}
	}
	return out
}

func (c *copier) fillMaps(b *baseState) {
	// maps were allocated during discovery; fill them by walking the originals again
	seen := map[uintptr]bool{}
	var walk func(v value)
	walk = func(v value) {
		switch x := v.(type) {
		case *value:
			if x == nil || c.shared.cells[x] {
				return
			}
			k := uintptr(unsafe.Pointer(x))
			if seen[k] {
				return
			}
			seen[k] = true
			walk(*x)
		case structure:
			for _, e := range x {
				walk(e)
			}
		case array:
			for _, e := range x {
				walk(e)
			}
		case []value:
			if ck := contKey(x); ck != nil {
				if c.shared.conts[ck] || seen[uintptr(ck)] {
					return
				}
				seen[uintptr(ck)] = true
				for _, e := range x[:cap(x)] {
					walk(e)
				}
			}
		case iface:
			walk(x.v)
		case *closure:
			if x != nil {
				walk(x.Env)
			}
		case map[value]value:
			if x == nil {
				return
			}
			k := reflect.ValueOf(x).Pointer()
			if c.shared.maps[k] || seen[k] {
				return
			}
			seen[k] = true
			n := c.maps[k].(map[value]value)
			for kk, e := range x {
				n[c.tr(kk)] = c.tr(e)
				walk(kk)
				walk(e)
			}
		case *hashmap:
			if x == nil {
				return
			}
			k := uintptr(unsafe.Pointer(x))
			if c.shared.maps[k] || seen[k] {
				return
			}
			seen[k] = true
			n := c.maps[k].(*hashmap)
			for _, e := range x.entries() {
				for ; e != nil; e = e.next {
					n.insert(c.tr(e.key).(hashable), c.tr(e.value))
					walk(e.key)
					walk(e.value)
				}
			}
		}
	}
	for _, g := range b.own {
		walk(*b.globals[g])
	}
}
