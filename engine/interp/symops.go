package interp

// Glue between SSA instruction handlers and symbolic values.

import (
	"fmt"
	"go/token"
	"go/types"
	"sort"

	"golang.org/x/tools/go/ssa"
)

// cond resolves a branch condition (forking when symbolic).
func (fr *frame) cond(v value) bool {
	switch c := v.(type) {
	case bool:
		return c
	case sym:
		return fr.i.p.decide(c.t)
	}
	panic(engineError{fmt.Sprintf("branch condition of type %T at %s", v, frameTrace(fr))})
}

const concLimit = 4096

// conc returns the integer value of v, forking over feasible values when symbolic.
func (fr *frame) conc(v value) int64 {
	if s, ok := v.(sym); ok {
		w, signed := kindInfo(s.k)
		u := fr.i.p.concretize(s.t, "integer needed concretely in "+fr.fn.String(), concLimit)
		if signed {
			return sext64(u, w)
		}
		return int64(u)
	}
	return asInt64(v)
}

// concValue makes a scalar or string value concrete by forking.
func (fr *frame) concValue(v value, why string) value {
	switch x := v.(type) {
	case sym:
		u := fr.i.p.concretize(x.t, why, concLimit)
		return valueOf(mkConst(int(x.t.w), u), x.k)
	case symstr:
		b := make([]byte, len(x))
		for i, e := range x {
			if se, ok := e.(sym); ok {
				b[i] = byte(fr.i.p.concretize(se.t, why, 256))
			} else {
				b[i] = e.(uint8)
			}
		}
		return string(b)
	case symcplx:
		re := fr.concValue(x.re, why)
		im := fr.concValue(x.im, why)
		if x.k == types.Complex64 {
			return complex(re.(float32), im.(float32))
		}
		return complex(re.(float64), im.(float64))
	}
	return v
}

func zeroLike(v value) value {
	_, k := termOf(v)
	return valueOf(mkConst(func() int { w, _ := kindInfo(k); return w }(), 0), k)
}

func iteScalar(c *Term, a, b value) value {
	ta, k := termOf(a)
	tb, _ := termOf(b)
	return valueOf(mkIte(c, ta, tb), k)
}

// iteValue merges two values of identical shape under condition c.
func iteValue(c *Term, a, b value) (value, bool) {
	switch av := a.(type) {
	case structure:
		bv, ok := b.(structure)
		if !ok || len(bv) != len(av) {
			return nil, false
		}
		out := make(structure, len(av))
		for i := range av {
			if out[i], ok = iteValue(c, av[i], bv[i]); !ok {
				return nil, false
			}
		}
		return out, true
	case array:
		bv, ok := b.(array)
		if !ok || len(bv) != len(av) {
			return nil, false
		}
		out := make(array, len(av))
		for i := range av {
			if out[i], ok = iteValue(c, av[i], bv[i]); !ok {
				return nil, false
			}
		}
		return out, true
	case bool, int, int8, int16, int32, int64, uint, uint8, uint16, uint32, uint64, uintptr, float32, float64, sym:
		switch b.(type) {
		case bool, int, int8, int16, int32, int64, uint, uint8, uint16, uint32, uint64, uintptr, float32, float64, sym:
			return iteScalar(c, a, b), true
		}
		return nil, false
	}
	// other shapes (pointers, strings, interfaces): only mergeable when identical
	if ca, ok := a.(string); ok {
		if cb, ok := b.(string); ok && ca == cb {
			return a, true
		}
		return nil, false
	}
	if pa, ok := a.(*value); ok {
		if pb, ok := b.(*value); ok && pa == pb {
			return a, true
		}
	}
	return nil, false
}

// symptr is the address elems[idx] for a symbolic idx whose only uses are loads.
type symptr struct {
	elems []value
	idx   sym
}

// inRange forks on idx being a valid index for length n; panics (target runtime error) when not.
func (fr *frame) inRange(idx sym, n int) {
	w, signed := kindInfo(idx.k)
	t := idx.t
	if w < 64 {
		if signed {
			t = mkSExt(t, 64)
		} else {
			t = mkZExt(t, 64)
		}
	}
	ok := mkCmp(OpUlt, t, mkConst(64, uint64(n)))
	if !fr.i.p.decide(ok) {
		panic(runtimeError(fmt.Sprintf("index out of range [symbolic] with length %d", n)))
	}
}

type runtimeError string

func (e runtimeError) Error() string   { return "runtime error: " + string(e) }
func (e runtimeError) RuntimeError()   {}

const iteReadMax = 512

func symRead(fr *frame, elems []value, idx sym) value {
	fr.inRange(idx, len(elems))
	if len(elems) == 0 {
		panic("unreachable")
	}
	if len(elems) <= iteReadMax {
		w, _ := kindInfo(idx.k)
		res := elems[len(elems)-1]
		ok := true
		for i := len(elems) - 2; i >= 0 && ok; i-- {
			c := mkEq(idx.t, mkConst(w, uint64(i)))
			res, ok = iteValue(c, elems[i], res)
		}
		if ok {
			return res
		}
	}
	return elems[fr.conc(idx)]
}

func onlyLoads(instr *ssa.IndexAddr) bool {
	refs := instr.Referrers()
	if refs == nil {
		return false
	}
	for _, r := range *refs {
		u, ok := r.(*ssa.UnOp)
		if !ok || u.Op != token.MUL {
			if _, dbg := r.(*ssa.DebugRef); dbg {
				continue
			}
			return false
		}
	}
	return true
}

func indexAddr(fr *frame, instr *ssa.IndexAddr, x, idx value) value {
	var elems []value
	switch x := x.(type) {
	case []value:
		elems = x
	case *value: // *array
		if x == nil {
			panic(runtimeError("invalid memory address or nil pointer dereference"))
		}
		elems = (*x).(array)
	default:
		panic(fmt.Sprintf("unexpected x type in IndexAddr: %T", x))
	}
	if si, ok := idx.(sym); ok {
		if onlyLoads(instr) {
			return &symptr{elems, si}
		}
		fr.inRange(si, len(elems))
		return &elems[fr.conc(idx)]
	}
	i := asInt64(idx)
	if i < 0 || i >= int64(len(elems)) {
		panic(runtimeError(fmt.Sprintf("index out of range [%d] with length %d", i, len(elems))))
	}
	return &elems[i]
}

func indexValue(fr *frame, x, idx value) value {
	var elems []value
	switch x := x.(type) {
	case array:
		elems = x
	case string:
		if si, ok := idx.(sym); ok {
			return symRead(fr, strBytes(x), si)
		}
		i := asInt64(idx)
		if i < 0 || i >= int64(len(x)) {
			panic(runtimeError(fmt.Sprintf("index out of range [%d] with length %d", i, len(x))))
		}
		return x[i]
	case symstr:
		elems = x
	default:
		panic(fmt.Sprintf("unexpected x type in Index: %T", x))
	}
	if si, ok := idx.(sym); ok {
		return symRead(fr, elems, si)
	}
	i := asInt64(idx)
	if i < 0 || i >= int64(len(elems)) {
		panic(runtimeError(fmt.Sprintf("index out of range [%d] with length %d", i, len(elems))))
	}
	return elems[i]
}

func loadInstr(fr *frame, instr *ssa.UnOp, x value) value {
	if sp, ok := x.(*symptr); ok {
		return symRead(fr, sp.elems, sp.idx)
	}
	addr := x.(*value)
	if addr == nil {
		panic(runtimeError("invalid memory address or nil pointer dereference"))
	}
	if s := fr.i.p.sched; s != nil {
		s.access(fr, addr, false, instr.Pos())
		s.accessParts(fr, *addr, false, instr.Pos())
	}
	return load(mustDeref(instr.X.Type()), addr)
}

func storeInstr(fr *frame, instr *ssa.Store) {
	addr := fr.get(instr.Addr).(*value)
	if addr == nil {
		panic(runtimeError("invalid memory address or nil pointer dereference"))
	}
	if s := fr.i.p.sched; s != nil {
		s.access(fr, addr, true, instr.Pos())
		s.accessParts(fr, *addr, true, instr.Pos()) // the fields being overwritten
	}
	store(mustDeref(instr.Addr.Type()), addr, fr.get(instr.Val))
	if s := fr.i.p.sched; s != nil {
		s.accessParts(fr, *addr, true, instr.Pos()) // the fields of the value now in place
	}
}

// binopSym handles binary operators with at least one symbolic operand.
func binopSym(op token.Token, t types.Type, x, y value) (value, bool) {
	if op == token.LAND || op == token.LOR {
		if bx, ok := x.(bool); ok {
			if by, ok := y.(bool); ok {
				if op == token.LAND {
					return bx && by, true
				}
				return bx || by, true
			}
		}
	}
	switch x.(type) {
	case sym:
		return symBinop(op, x, y), true
	case symstr:
		return symStrBinop(op, x, y), true
	case symcplx:
		return cplxBinop(op, x, y), true
	}
	switch y.(type) {
	case sym:
		return symBinop(op, x, y), true
	case symstr:
		return symStrBinop(op, x, y), true
	case symcplx:
		return cplxBinop(op, x, y), true
	}
	if (op == token.EQL || op == token.NEQ) && t != nil && (containsSym(x) || containsSym(y)) {
		e := eqTerm(t, x, y)
		if op == token.NEQ {
			e = mkNot(e)
		}
		return valueOf(e, types.Bool), true
	}
	return nil, false
}

func cplxBinop(op token.Token, x, y value) value {
	xr, xi := cplxParts(x)
	yr, yi := cplxParts(y)
	k := types.Complex128
	if c, ok := x.(symcplx); ok {
		k = c.k
	} else if c, ok := y.(symcplx); ok {
		k = c.k
	}
	switch op {
	case token.ADD, token.SUB:
		return symcplx{re: binop(op, nil, xr, yr), im: binop(op, nil, xi, yi), k: k}
	case token.EQL, token.NEQ:
		a := binop(token.EQL, nil, xr, yr)
		b := binop(token.EQL, nil, xi, yi)
		ta, _ := termOf(a)
		tb, _ := termOf(b)
		e := mkAnd(ta, tb)
		if op == token.NEQ {
			e = mkNot(e)
		}
		return valueOf(e, types.Bool)
	}
	panic(engineError{"complex operator " + op.String() + " on symbolic operands"})
}

// convSym handles conversions of symbolic values.
func convSym(ut_dst, ut_src types.Type, x value) (value, bool) {
	switch x := x.(type) {
	case sym:
		if db, ok := ut_dst.(*types.Basic); ok {
			if db.Kind() == types.String {
				panic(engineError{"conversion of a symbolic integer to string"})
			}
			if db.Info()&types.IsNumeric != 0 || db.Kind() == types.Bool {
				return symConvNum(db.Kind(), x), true
			}
		}
	case symstr:
		switch d := ut_dst.(type) {
		case *types.Basic:
			if d.Kind() == types.String {
				return x, true
			}
		case *types.Slice:
			if d.Elem().Underlying().(*types.Basic).Kind() == types.Byte {
				out := make([]value, len(x))
				copy(out, x)
				return out, true
			}
			panic(engineError{"conversion of a symbolic string to []rune"})
		}
	case symcplx:
		if db, ok := ut_dst.(*types.Basic); ok && db.Info()&types.IsComplex != 0 {
			fk := types.Float64
			if db.Kind() == types.Complex64 {
				fk = types.Float32
			}
			cv := func(v value) value {
				if s, ok := v.(sym); ok {
					return symConvNum(fk, s)
				}
				if fk == types.Float32 {
					switch f := v.(type) {
					case float64:
						return float32(f)
					}
					return v
				}
				switch f := v.(type) {
				case float32:
					return float64(f)
				}
				return v
			}
			return symcplx{re: cv(x.re), im: cv(x.im), k: db.Kind()}, true
		}
	}
	return nil, false
}

// symMapLookup looks a symbolic key up by forking on equality with each present key.
func symMapLookup(fr *frame, m map[value]value, key value) (value, bool) {
	keys := sortedKeys(m)
	for _, k := range keys {
		var c *Term
		switch key.(type) {
		case symstr:
			ks, ok := k.(string)
			if !ok {
				continue
			}
			c = strEqTerm(key, ks)
		case sym:
			c = eqScalar(key.(sym), k)
		default:
			panic(engineError{fmt.Sprintf("symbolic map key %T", key)})
		}
		if fr.i.p.decide(c) {
			return m[k], true
		}
	}
	return nil, false
}

func sortedKeys(m map[value]value) []value {
	keys := make([]value, 0, len(m))
	for k := range m {
		keys = append(keys, k)
	}
	sort.Slice(keys, func(i, j int) bool { return keyLess(keys[i], keys[j]) })
	return keys
}

func keyLess(a, b value) bool {
	switch x := a.(type) {
	case string:
		if y, ok := b.(string); ok {
			return x < y
		}
	case bool:
		if y, ok := b.(bool); ok {
			return !x && y
		}
	case float32, float64:
		return toString(a) < toString(b)
	case *value, chan value, *mchan:
		return toString(a) < toString(b)
	}
	switch a.(type) {
	case int, int8, int16, int32, int64, uint, uint8, uint16, uint32, uint64, uintptr:
		switch b.(type) {
		case int, int8, int16, int32, int64, uint, uint8, uint16, uint32, uint64, uintptr:
			return asInt64(a) < asInt64(b)
		}
	}
	return toString(a) < toString(b)
}

// sortedMapIter iterates a builtin-keyed map in a deterministic order.
type sortedMapIter struct {
	m    map[value]value
	keys []value
	i    int
}

func newSortedMapIter(m map[value]value) iter {
	return &sortedMapIter{m: m, keys: sortedKeys(m)}
}

func (it *sortedMapIter) next() tuple {
	for it.i < len(it.keys) {
		k := it.keys[it.i]
		it.i++
		if v, ok := it.m[k]; ok { // skip keys deleted during iteration
			return []value{true, k, v}
		}
	}
	return []value{false, nil, nil}
}

// symStrIter ranges over a string with symbolic bytes by running the real
// unicode/utf8.DecodeRuneInString on the remaining bytes.
type symStrIter struct {
	fr *frame
	s  symstr
	i  int
}

func (it *symStrIter) next() tuple {
	okv := make(tuple, 3)
	if it.i >= len(it.s) {
		okv[0] = false
		return okv
	}
	fn := it.fr.i.prog.ImportedPackage("unicode/utf8").Func("DecodeRuneInString")
	res := call(it.fr.i, it.fr, token.NoPos, fn, []value{mkStr(it.s[it.i:])}).(tuple)
	okv[0] = true
	okv[1] = it.i
	okv[2] = res[0]
	it.i += int(it.fr.conc(res[1]))
	return okv
}
