package interp

// Model of *os.File: an opaque handle whose Write/Sync/Close calls are recorded per path.
// Handles are created by the harness (vrt.NewFile) — zap only ever obtains files through the
// openFile seam of its sink registry — and os.Stdout/os.Stderr are pre-created handles.

import (
	"fmt"
	"go/types"

	"golang.org/x/tools/go/ssa"
)

type fileModel struct {
	name      string
	data      []value
	writes    int
	syncs     int
	closes    int
	failWrite bool
	failSync  bool
}

func (p *Path) files() map[*value]*fileModel {
	m, _ := p.extra["files"].(map[*value]*fileModel)
	if m == nil {
		m = map[*value]*fileModel{}
		p.extra["files"] = m
	}
	return m
}

func newFileHandle(fr *frame, name string) *value {
	osPkg := fr.i.prog.ImportedPackage("os")
	if osPkg == nil {
		panic(engineError{"os package not loaded"})
	}
	cell := zero(osPkg.Type("File").Type().Underlying())
	ptr := &cell
	fr.i.p.files()[ptr] = &fileModel{name: name}
	return ptr
}

func fileOf(fr *frame, v value) *fileModel {
	ptr, _ := v.(*value)
	if ptr == nil {
		return nil
	}
	return fr.i.p.files()[ptr]
}

// stdFile returns the handle standing for os.Stdout / os.Stderr on this path.
func stdFile(fr *frame, which string) *value {
	key := "stdfile:" + which
	if h, ok := fr.i.p.extra[key].(*value); ok {
		return h
	}
	h := newFileHandle(fr, "/dev/"+which)
	fr.i.p.extra[key] = h
	return h
}

func osErr(fr *frame, name string) value {
	return makeError(fr, "os: "+name)
}

func init() {
	I := intrinsics
	I[vrtPath+"NewFile"] = func(fr *frame, args []value) value {
		h := newFileHandle(fr, argStr(fr, args[0]))
		fr.i.p.files()[h].failWrite = args[1].(bool)
		return h
	}
	I[vrtPath+"RemoveFiles"] = func(fr *frame, args []value) value { return nil }
	I[vrtPath+"FileCloses"] = func(fr *frame, args []value) value {
		f := fileOf(fr, args[0])
		if f == nil {
			panic(engineError{"FileCloses on unknown file"})
		}
		return f.closes
	}
	I[vrtPath+"FileSyncs"] = func(fr *frame, args []value) value {
		f := fileOf(fr, args[0])
		if f == nil {
			panic(engineError{"FileSyncs on unknown file"})
		}
		return f.syncs
	}
	I[vrtPath+"FileData"] = func(fr *frame, args []value) value {
		f := fileOf(fr, args[0])
		if f == nil {
			panic(engineError{"FileData on unknown file"})
		}
		return mkStr(append([]value{}, f.data...))
	}

	I["(*os.File).Write"] = func(fr *frame, args []value) value {
		f := fileOf(fr, args[0])
		if f == nil {
			return tuple{0, osErr(fr, "invalid argument")}
		}
		fr.i.p.sched.yield("File.Write")
		if f.closes > 0 {
			return tuple{0, osErr(fr, "file already closed")}
		}
		f.writes++
		b := args[1].([]value)
		if f.failWrite {
			return tuple{0, osErr(fr, "write "+f.name+": input/output error")}
		}
		f.data = append(f.data, b...)
		fr.i.p.events = append(fr.i.p.events, "fwrite:"+f.name)
		return tuple{len(b), iface{}}
	}
	I["(*os.File).WriteString"] = func(fr *frame, args []value) value {
		return I["(*os.File).Write"](fr, []value{args[0], strBytes(args[1])})
	}
	I["(*os.File).Sync"] = func(fr *frame, args []value) value {
		f := fileOf(fr, args[0])
		if f == nil {
			return osErr(fr, "invalid argument")
		}
		if f.closes > 0 {
			return osErr(fr, "file already closed")
		}
		f.syncs++
		fr.i.p.events = append(fr.i.p.events, "fsync:"+f.name)
		if f.failSync {
			return osErr(fr, "sync "+f.name+": input/output error")
		}
		return iface{}
	}
	I["(*os.File).Close"] = func(fr *frame, args []value) value {
		f := fileOf(fr, args[0])
		if f == nil {
			return osErr(fr, "invalid argument")
		}
		f.closes++
		fr.i.p.events = append(fr.i.p.events, "fclose:"+f.name)
		if f.closes > 1 {
			return osErr(fr, "file already closed")
		}
		return iface{}
	}
	I["(*os.File).Name"] = func(fr *frame, args []value) value {
		f := fileOf(fr, args[0])
		if f == nil {
			panic(runtimeError("invalid memory address or nil pointer dereference"))
		}
		return f.name
	}
	I["(*os.File).Fd"] = func(fr *frame, args []value) value {
		f := fileOf(fr, args[0])
		if f == nil || f.closes > 0 {
			return ^uintptr(0)
		}
		return uintptr(3)
	}
}

// osGlobalValue supplies the value of os.Stdout / os.Stderr / os.Stdin when read (package os is not initialised).
func osGlobalValue(fr *frame, g *ssa.Global) (value, bool) {
	if g.Pkg == nil || g.Pkg.Pkg.Path() != "os" {
		return nil, false
	}
	switch g.Name() {
	case "Stdout":
		return stdFile(fr, "stdout"), true
	case "Stderr":
		return stdFile(fr, "stderr"), true
	case "Stdin":
		return stdFile(fr, "stdin"), true
	}
	return nil, false
}

var _ = fmt.Sprintf
var _ types.Type
